(* Engine/AbsSound.v — soundness of the abstract interpreter of Engine/Abs.v with respect to the token-level
   interpreter: whenever [asexec] answers, every concrete state described by the abstract input state runs,
   with any fuel, into a state described by the abstract outcome or out of fuel, and never into a rejection. *)

From Coq Require Import Lia Bool.
From SwiftMT Require Import Base.Bytes Engine.Layout Engine.Tokens Engine.Regex Engine.Abs Engine.Total.

Section Sound.
Variable fparse : bytes -> option bytes -> bytes -> bool.
Variable fp : bytes -> option bytes -> bytes -> option bool.
Variable U : list (bytes * option bytes * bytes).
Variable lax : bool.

Notation exec' := (texec fparse).
Notation call' := (call (list tok) t_detect t_extract fparse).
Notation eval' := (eval (list tok) t_detect t_complete).

(* the hypothesis on contents: on this token every parser the layout may apply answers as [fp] says *)
Definition good (k : tok) : Prop :=
  forall ty l b, inU U (ty, l, fst k) = true -> fp ty l (fst k) = Some b -> fparse ty l (snd k) = b.

Definition in_anat (n : nat) (a : anat) : Prop := if exact a then n = lo a else lo a <= n.
Definition cur_in (h : hd) (c : list tok) : Prop := hd_in h (map fst c).

(* concretisation *)
Definition G (S : ast) (s : tst) : Prop :=
  (exists h, In h (a_cur S) /\ cur_in h (cur s)) /\
  Forall good (cur s) /\
  (forall t, mem t (seen s) = true -> mem t (a_seen S) = true) /\
  match a_dup S with Some b => dup s = b | None => True end /\
  (forall v, in_anat (get _ s v) (aget S v)).

Lemma G_not_bot : forall S s, G S s -> is_bot S = false.
Proof. intros S s [[h [Hin _]] _]. unfold is_bot. destruct (a_cur S); [contradiction | reflexivity]. Qed.

(* ---- membership helpers *)
Lemma hd_mem_in : forall h l, hd_mem h l = true -> In h l.
Proof.
  intros h l. induction l as [|x r IH]; cbn [hd_mem]; intro H; [discriminate|].
  apply orb_prop in H. destruct H as [H|H]; [left; symmetry; apply hd_eqb_eq; exact H | right; apply IH; exact H].
Qed.
Lemma hd_eqb_refl : forall h, hd_eqb h h = true.
Proof.
  assert (R : forall r, re_eqb r r = true).
  { induction r as [| |x|a IHa b IHb|a IHa b IHb|r IH l h]; cbn [re_eqb]; try reflexivity.
    - induction x as [|u x IHx]; [reflexivity|]. rewrite bytes_eqb_refl. exact IHx.
    - rewrite IHa, IHb. reflexivity.
    - rewrite IHa, IHb. reflexivity.
    - rewrite IH, Nat.eqb_refl. destruct h; [apply Nat.eqb_refl | reflexivity]. }
  intros [|t r]; cbn [hd_eqb]; [reflexivity|]. rewrite bytes_eqb_refl, R. reflexivity.
Qed.
Lemma in_hd_mem : forall h l, In h l -> hd_mem h l = true.
Proof.
  intros h l. induction l as [|x r IH]; intro H; [contradiction|]. cbn [hd_mem]. destruct H as [H|H].
  - subst. rewrite hd_eqb_refl. reflexivity.
  - rewrite (IH H). apply orb_true_r.
Qed.
Lemma hd_union_l : forall a b h, In h a -> In h (hd_union a b).
Proof.
  induction a as [|x r IH]; intros b h H; [contradiction|]. cbn [hd_union]. destruct H as [H|H].
  - subst. destruct (hd_mem h b) eqn:E.
    + clear IH. assert (K : In h b) by (apply hd_mem_in; exact E). clear E. induction r as [|y r IHr]; cbn [hd_union]; [exact K|].
      destruct (hd_mem y b); [exact IHr | right; exact IHr].
    + left. reflexivity.
  - destruct (hd_mem x b); [apply IH; exact H | right; apply IH; exact H].
Qed.
Lemma hd_union_r : forall a b h, In h b -> In h (hd_union a b).
Proof.
  induction a as [|x r IH]; intros b h H; [exact H|]. cbn [hd_union].
  destruct (hd_mem x b); [apply IH; exact H | right; apply IH; exact H].
Qed.

Lemma mem_cons : forall t x (l : list bytes), mem t (x :: l) = bytes_eqb t x || mem t l.
Proof. reflexivity. Qed.
Lemma mem_dedup_iff : forall t l, mem t (dedup l) = mem t l.
Proof.
  intros t l. destruct (mem t l) eqn:E; [apply mem_dedup; exact E|].
  induction l as [|x r IH]; [reflexivity|]. rewrite mem_cons in E. apply orb_false_elim in E. destruct E as [E1 E2].
  cbn [dedup]. destruct (mem x r); [apply IH; exact E2|]. rewrite mem_cons, E1. apply IH. exact E2.
Qed.

(* ---- counters *)
Lemma in_anat_join_l : forall n a b, in_anat n a -> in_anat n (anat_join a b).
Proof.
  intros n a b H. unfold anat_join. destruct (exact a && exact b && Nat.eqb (lo a) (lo b)); [exact H|].
  unfold in_anat in *. cbn [exact lo]. destruct (exact a); lia.
Qed.
Lemma in_anat_join_r : forall n a b, in_anat n b -> in_anat n (anat_join a b).
Proof.
  intros n a b H. unfold anat_join. destruct (exact a && exact b && Nat.eqb (lo a) (lo b)) eqn:E.
  - apply andb_prop in E. destruct E as [E E3]. apply andb_prop in E. destruct E as [E1 E2]. apply Nat.eqb_eq in E3.
    unfold in_anat in *. rewrite E1. rewrite E2 in H. lia.
  - unfold in_anat in *. cbn [exact lo]. destruct (exact b); lia.
Qed.
Lemma in_anat_leq : forall n a b, anat_leq a b = true -> in_anat n a -> in_anat n b.
Proof.
  intros n a b L H. unfold anat_leq in L. unfold in_anat in *. destruct (exact b).
  - apply andb_prop in L. destruct L as [L1 L2]. apply Nat.eqb_eq in L2. rewrite L1 in H. lia.
  - apply Nat.leb_le in L. destruct (exact a); lia.
Qed.

(* ---- the joined environment *)
Lemma lookup_map_keys : forall (f : bytes -> anat) l v,
  lookup v (map (fun k => (k, f k)) l) = if mem v l then Some (f v) else None.
Proof.
  intros f l v. induction l as [|x r IH]; [reflexivity|]. cbn [map lookup]. rewrite mem_cons.
  destruct (bytes_eqb v x) eqn:E; [apply bytes_eqb_eq in E; subst; reflexivity | exact IH].
Qed.
Lemma aget_notin : forall S v, mem v (keys S) = false -> aget S v = aexact 0.
Proof.
  intros S v H. unfold aget, keys in *. induction (a_env S) as [|[k a] r IH]; [reflexivity|].
  cbn [map fst] in H. rewrite mem_cons in H. apply orb_false_elim in H. destruct H as [H1 H2].
  cbn [lookup]. rewrite H1. apply IH. exact H2.
Qed.
Lemma mem_app : forall t (a b : list bytes), mem t (a ++ b) = mem t a || mem t b.
Proof. intros t a b. unfold mem. apply existsb_app. Qed.

Lemma aget_join : forall A B v, is_bot A = false -> is_bot B = false ->
  aget (ajoin A B) v = anat_join (aget A v) (aget B v).
Proof.
  intros A B v HA HB. unfold ajoin. rewrite HA, HB. unfold aget at 1. cbn [a_env].
  rewrite lookup_map_keys, mem_dedup_iff, mem_app.
  destruct (mem v (keys A)) eqn:EA; [reflexivity|]. destruct (mem v (keys B)) eqn:EB; [reflexivity|].
  cbn [orb]. rewrite (aget_notin A v EA), (aget_notin B v EB). reflexivity.
Qed.

Lemma ajoin_l : forall A B s, G A s -> G (ajoin A B) s.
Proof.
  intros A B s H. pose proof (G_not_bot A s H) as HA. unfold ajoin. rewrite HA.
  destruct (is_bot B) eqn:HB; [exact H|].
  destruct H as [[h [Hin Hc]] [Hg [Hs [Hd He]]]]. unfold G. cbn [a_cur a_seen a_dup]. repeat split.
  - exists h. split; [apply hd_union_l; exact Hin | exact Hc].
  - exact Hg.
  - intros t Ht. rewrite mem_dedup_iff, mem_app, (Hs t Ht). reflexivity.
  - destruct (a_dup A) as [x|]; [|exact I]. destruct (a_dup B) as [y|]; [|exact I]. destruct (Bool.eqb x y); [exact Hd | exact I].
  - intro v. pose proof (aget_join A B v HA HB) as E. unfold ajoin in E. rewrite HA, HB in E. rewrite E.
    apply in_anat_join_l. apply He.
Qed.

Lemma ajoin_r : forall A B s, G B s -> G (ajoin A B) s.
Proof.
  intros A B s H. pose proof (G_not_bot B s H) as HB. unfold ajoin. destruct (is_bot A) eqn:HA; [exact H|]. rewrite HB.
  destruct H as [[h [Hin Hc]] [Hg [Hs [Hd He]]]]. unfold G. cbn [a_cur a_seen a_dup]. repeat split.
  - exists h. split; [apply hd_union_r; exact Hin | exact Hc].
  - exact Hg.
  - intros t Ht. rewrite mem_dedup_iff, mem_app, (Hs t Ht). apply orb_true_r.
  - destruct (a_dup A) as [x|]; [|exact I]. destruct (a_dup B) as [y|]; [|exact I].
    destruct (Bool.eqb x y) eqn:E; [apply eqb_prop in E; rewrite E; exact Hd | exact I].
  - intro v. pose proof (aget_join A B v HA HB) as E. unfold ajoin in E. rewrite HA, HB in E. rewrite E.
    apply in_anat_join_r. apply He.
Qed.

Lemma aleq_sound : forall A B s, aleq A B = true -> G A s -> G B s.
Proof.
  intros A B s L H. pose proof (G_not_bot A s H) as HA. unfold aleq in L. rewrite HA in L. cbn [orb] in L.
  apply andb_prop in L. destruct L as [L L4]. apply andb_prop in L. destruct L as [L L3]. apply andb_prop in L. destruct L as [L1 L2].
  destruct H as [[h [Hin Hc]] [Hg [Hs [Hd He]]]]. unfold G. repeat split.
  - exists h. split; [|exact Hc]. apply hd_mem_in. rewrite forallb_forall in L1. apply L1. exact Hin.
  - exact Hg.
  - intros t Ht. rewrite forallb_forall in L2. apply L2. apply mem_in. apply Hs. exact Ht.
  - destruct (a_dup B) as [y|]; [|exact I]. destruct (a_dup A) as [x|]; [|discriminate]. apply eqb_prop in L3. rewrite <- L3. exact Hd.
  - intro v. destruct (mem v (keys A ++ keys B)) eqn:M.
    + rewrite forallb_forall in L4. apply (in_anat_leq _ (aget A v)); [apply L4; apply mem_in; exact M | apply He].
    + rewrite mem_app in M. apply orb_false_elim in M. destruct M as [M1 M2].
      rewrite (aget_notin B v M2). rewrite <- (aget_notin A v M1). apply He.
Qed.

(* ---- conditions *)
Lemma G_with_cur : forall S s c h, G S s -> In h c -> cur_in h (cur s) -> G (a_with_cur S c) s.
Proof.
  intros S s c h [_ [Hg [Hs [Hd He]]]] Hin Hc. unfold G. cbn [a_with_cur a_cur a_seen a_dup]. repeat split; try assumption.
  exists h. split; assumption.
Qed.

Lemma cur_in_detect : forall h (c : list tok) t, cur_in h c -> t_detect c t = head_is t h.
Proof.
  intros h c t H. unfold cur_in in H. destruct h as [|a r]; cbn [hd_in head_is] in *.
  - destruct c; [reflexivity | discriminate].
  - destruct H as [w' [E _]]. destruct c as [|[a' x] rest]; [discriminate|]. cbn [map fst] in E. inversion E; subst. reflexivity.
Qed.
Lemma cur_in_complete : forall h (c : list tok), cur_in h c -> t_complete c = is_empty_hd h.
Proof.
  intros h c H. unfold cur_in in H. destruct h as [|a r]; cbn [hd_in is_empty_hd] in *.
  - destruct c; [reflexivity | discriminate].
  - destruct H as [w' [E _]]. destruct c; [discriminate | reflexivity].
Qed.

Lemma asplit_sound : forall c S St Sf s, asplit c S = Ok (St, Sf) -> G S s ->
  (eval' c s = true -> G St s) /\ (eval' c s = false -> G Sf s).
Proof.
  induction c as [t|a IHa b IHb|a IHa b IHb|a IHa|v n|v n|v|v| |]; intros S St Sf s H HG; cbn [asplit eval] in *.
  - inversion H; subst; clear H. destruct HG as [[h [Hin Hc]] HR].
    assert (HG : G S s) by (split; [exists h; split; assumption | exact HR]).
    rewrite (cur_in_detect h (cur s) t Hc). split; intro E.
    + apply (G_with_cur S s _ h HG); [apply filter_In; split; assumption | exact Hc].
    + apply (G_with_cur S s _ h HG); [apply filter_In; split; [exact Hin | rewrite E; reflexivity] | exact Hc].
  - destruct (asplit a S) as [[ta fa]|] eqn:Ea; [|discriminate].
    destruct (asplit b fa) as [[tb fb]|] eqn:Eb; [|discriminate]. inversion H; subst; clear H.
    destruct (IHa S ta fa s Ea HG) as [A1 A2]. destruct (eval' a s) eqn:Va; cbn [orb].
    + split; [intros _; apply ajoin_l; apply A1; reflexivity | discriminate].
    + destruct (IHb fa tb Sf s Eb (A2 eq_refl)) as [B1 B2]. split; [intro E; apply ajoin_r; apply B1; exact E | exact B2].
  - destruct (asplit a S) as [[ta fa]|] eqn:Ea; [|discriminate].
    destruct (asplit b ta) as [[tb fb]|] eqn:Eb; [|discriminate]. inversion H; subst; clear H.
    destruct (IHa S ta fa s Ea HG) as [A1 A2]. destruct (eval' a s) eqn:Va; cbn [andb].
    + destruct (IHb ta St fb s Eb (A1 eq_refl)) as [B1 B2]. split; [exact B1 | intro E; apply ajoin_r; apply B2; exact E].
    + split; [discriminate | intros _; apply ajoin_l; apply A2; reflexivity].
  - destruct (asplit a S) as [[ta fa]|] eqn:Ea; [|discriminate]. inversion H; subst; clear H.
    destruct (IHa S Sf St s Ea HG) as [A1 A2]. split; intro E.
    + apply A2. destruct (eval' a s); [discriminate | reflexivity].
    + apply A1. destruct (eval' a s); [reflexivity | discriminate].
  - pose proof (proj2 (proj2 (proj2 (proj2 HG))) v) as Hv. unfold in_anat in Hv. destruct (exact (aget S v)).
    + rewrite Hv. destruct (Nat.ltb (lo (aget S v)) n); inversion H; subst; split; intro E; try discriminate; exact HG.
    + destruct (Nat.leb n (lo (aget S v))) eqn:L; inversion H; subst; clear H.
      * apply Nat.leb_le in L. split; intro E; [apply Nat.ltb_lt in E; lia | exact HG].
      * split; intros _; exact HG.
  - pose proof (proj2 (proj2 (proj2 (proj2 HG))) v) as Hv. unfold in_anat in Hv. destruct (exact (aget S v)).
    + rewrite Hv. destruct (Nat.leb n (lo (aget S v))); inversion H; subst; split; intro E; try discriminate; exact HG.
    + destruct (Nat.leb n (lo (aget S v))) eqn:L; inversion H; subst; clear H.
      * apply Nat.leb_le in L. split; intro E; [exact HG | apply Nat.leb_gt in E; lia].
      * split; intros _; exact HG.
  - pose proof (proj2 (proj2 (proj2 (proj2 HG))) v) as Hv. unfold in_anat in Hv. destruct (exact (aget S v)).
    + rewrite Hv. destruct (Nat.eqb (lo (aget S v)) 0); inversion H; subst; split; intro E; try discriminate; exact HG.
    + destruct (Nat.leb 1 (lo (aget S v))) eqn:L; inversion H; subst; clear H.
      * apply Nat.leb_le in L. split; intro E; [apply Nat.eqb_eq in E; lia | exact HG].
      * split; intros _; exact HG.
  - pose proof (proj2 (proj2 (proj2 (proj2 HG))) v) as Hv. unfold in_anat in Hv. destruct (exact (aget S v)).
    + rewrite Hv. destruct (Nat.eqb (lo (aget S v)) 0); inversion H; subst; split; cbn [negb]; intro E; try discriminate; exact HG.
    + destruct (Nat.leb 1 (lo (aget S v))) eqn:L; inversion H; subst; clear H.
      * apply Nat.leb_le in L. split; intro E; [exact HG|]. apply negb_false_iff in E. apply Nat.eqb_eq in E. lia.
      * split; intros _; exact HG.
  - inversion H; subst; clear H. destruct HG as [[h [Hin Hc]] HR].
    assert (HG : G S s) by (split; [exists h; split; assumption | exact HR]).
    rewrite (cur_in_complete h (cur s) Hc). split; intro E.
    + apply (G_with_cur S s _ h HG); [apply filter_In; split; assumption | exact Hc].
    + apply (G_with_cur S s _ h HG); [apply filter_In; split; [exact Hin | rewrite E; reflexivity] | exact Hc].
  - inversion H; subst. split; [intros _; exact HG | discriminate].
Qed.

(* ---- cursor calls *)
Definition popped (s : tst) (tag : bytes) (rest : list tok) : tst :=
  {| cur := rest; seen := if dup s then seen s else tag :: seen s; dup := dup s; env := env s; items := items s; verified := false |}.

Lemma extract_field_ok : forall (s : tst) tag x rest optional,
  cur s = (tag, x) :: rest -> (dup s = true \/ mem tag (seen s) = false \/ optional = true) ->
  extract_field (list tok) t_detect t_extract s tag optional = XOk _ x (popped s tag rest).
Proof.
  intros s tag x rest optional Hc Hd. unfold extract_field.
  assert (Z : negb (dup s) && mem tag (seen s) && negb optional = false).
  { destruct Hd as [E|[E|E]]; rewrite E; [reflexivity | rewrite andb_false_r; reflexivity | apply andb_false_r]. }
  rewrite Z, Hc. cbn [t_detect t_extract]. rewrite bytes_eqb_refl. reflexivity.
Qed.

Lemma G_add_item : forall S (s : tst) it, G S s -> G S (add_item _ s it).
Proof. intros S s it H. exact H. Qed.

Lemma get_set_env : forall (s : tst) v n w, get _ (set_env _ s v n) w = if bytes_eqb w v then n else get _ s w.
Proof. intros s v n w. unfold get, set_env. cbn [env lookup]. destruct (bytes_eqb w v); reflexivity. Qed.
Lemma aget_a_set : forall S v a w, aget (a_set S v a) w = if bytes_eqb w v then a else aget S w.
Proof. intros S v a w. unfold aget, a_set. cbn [a_env lookup]. destruct (bytes_eqb w v); reflexivity. Qed.

Lemma G_set : forall S (s : tst) v n a, G S s -> in_anat n a -> G (a_set S v a) (set_env _ s v n).
Proof.
  intros S s v n a [Hc [Hg [Hs [Hd He]]]] Hn. unfold G. cbn [a_set a_cur a_seen a_dup set_env cur seen dup]. repeat split; try assumption.
  intro w. rewrite get_set_env, aget_a_set. destruct (bytes_eqb w v); [exact Hn | apply He].
Qed.

Lemma in_anat_exact : forall n, in_anat n (aexact n).
Proof. intro n. reflexivity. Qed.
Lemma in_anat_succ : forall n a, in_anat n a -> in_anat (S n) (asucc a).
Proof. intros n a H. unfold in_anat, asucc in *. cbn [exact lo]. destruct (exact a); lia. Qed.

Lemma G_bind : forall S (s : tst) d p, G S s -> G (abind S d p) (bind _ s d p).
Proof.
  intros S s d p H. destruct d as [v|v|]; cbn [abind bind].
  - apply G_set; [exact H | apply in_anat_exact].
  - destruct p; [|exact H]. apply G_set; [exact H|]. apply in_anat_succ. apply (proj2 (proj2 (proj2 (proj2 H)))).
  - exact H.
Qed.

Lemma not_matches_none : forall w, ~ matches RNone w.
Proof. intros w H. inversion H. Qed.

Lemma hnf_live_sound : forall r w, matches r w -> exists h, In h (hnf_live r) /\ hd_in h w.
Proof.
  intros r w H. destruct (hnf_sound r w H) as [h [Hin Hh]]. exists h. split; [|exact Hh].
  unfold hnf_live. apply filter_In. split; [exact Hin|].
  destruct h as [|t r']; [reflexivity|]. destruct r'; try reflexivity. cbn [hd_in] in Hh. destruct Hh as [w' [_ M]]. inversion M.
Qed.

Lemma consume_sound : forall S S' (s : tst) tag r x rest,
  G S s -> cur s = (tag, x) :: rest -> matches r (map fst rest) -> consume S tag r = Some S' ->
  G S' (popped s tag rest).
Proof.
  intros S S' s tag r x rest [_ [Hg [Hs [Hd He]]]] Hc Hm Hcons. unfold consume, seen_after in Hcons.
  destruct (a_dup S) as [[|]|] eqn:ED; inversion Hcons; subst; clear Hcons; unfold G; cbn [a_cur a_seen a_dup popped cur seen dup].
  - repeat split.
    + destruct (hnf_live_sound r _ Hm) as [h [Hin Hh]]. exists h. split; assumption.
    + rewrite Hc in Hg. inversion Hg; assumption.
    + rewrite Hd. exact Hs.
    + exact Hd.
    + exact He.
  - repeat split.
    + destruct (hnf_live_sound r _ Hm) as [h [Hin Hh]]. exists h. split; assumption.
    + rewrite Hc in Hg. inversion Hg; assumption.
    + rewrite Hd. intros t Ht. rewrite mem_cons in *. destruct (bytes_eqb t tag); [reflexivity | apply Hs; exact Ht].
    + exact Hd.
    + exact He.
Qed.

Lemma verdict_true : forall ty l (k : tok), verdict fp U ty l (fst k) = Some true -> good k -> fparse ty l (snd k) = true.
Proof.
  intros ty l k V Hg. unfold verdict in V. destruct (inU U (ty, l, fst k)) eqn:E; [|discriminate]. exact (Hg ty l true E V).
Qed.

Lemma nodup_ok_sound : forall S (s : tst) tag, G S s -> nodup_ok S tag = true -> dup s = true \/ mem tag (seen s) = false.
Proof.
  intros S s tag [_ [_ [Hs [Hd _]]]] H. unfold nodup_ok in H. destruct (a_dup S) as [[|]|]; [left; exact Hd | | discriminate].
  right. destruct (mem tag (seen s)) eqn:E; [|reflexivity]. rewrite (Hs tag E) in H. discriminate.
Qed.

(* what a successful [consumed] gives on the concrete side: if the parser accepts, the consumed state; if it rejects,
   the analysis was in lax mode *)
Lemma consumed_sound : forall S S' (s : tst) ty l tag r d x rest,
  G S s -> cur s = (tag, x) :: rest -> matches r (map fst rest) ->
  consumed fp U lax S ty l tag r d = Ok S' ->
  (fparse ty l x = true -> forall it, G S' (bind _ (add_item _ (popped s tag rest) it) d true)) /\
  (fparse ty l x = false -> lax = true).
Proof.
  intros S S' s ty l tag r d x rest HG Hc Hm H. unfold consumed in H.
  assert (Hgood : good (tag, x)).
  { destruct HG as [_ [Hg _]]. rewrite Hc in Hg. inversion Hg; assumption. }
  assert (CONS : forall S0, consume S tag r = Some S0 -> forall it, G (abind S0 d true) (bind _ (add_item _ (popped s tag rest) it) d true)).
  { intros S0 C it. apply G_bind. apply G_add_item. exact (consume_sound S S0 s tag r x rest HG Hc Hm C). }
  destruct (verdict fp U ty l tag) as [[|]|] eqn:V.
  - destruct (consume S tag r) as [S0|] eqn:C; [|discriminate]. inversion H; subst; clear H.
    split; [intros _; apply CONS; reflexivity|]. intro F. pose proof (verdict_true ty l (tag, x) V Hgood) as T. cbn [snd] in T. rewrite T in F. discriminate.
  - unfold rej in H. destruct lax; [|discriminate]. split; [|reflexivity].
    intro T. unfold verdict in V. destruct (inU U (ty, l, tag)) eqn:E; [|discriminate].
    pose proof (Hgood ty l false E V) as T2. cbn [snd] in T2. rewrite T2 in T. discriminate.
  - destruct lax; [|discriminate]. destruct (consume S tag r) as [S0|] eqn:C; [|discriminate]. inversion H; subst; clear H.
    split; [intros _; apply CONS; reflexivity | reflexivity].
Qed.

Lemma afirst_sound : forall ls a x rest base,
  first_letter (list tok) t_detect ((a, x) :: rest) base ls = afirst_letter a base ls.
Proof.
  induction ls as [|l r IH]; intros a x rest base; cbn [first_letter afirst_letter t_detect]; [reflexivity|].
  destruct (bytes_eqb a (base ++ l)); [reflexivity | apply IH].
Qed.
Lemma afirst_tag : forall ls a base l, afirst_letter a base ls = Some l -> base ++ l = a.
Proof.
  induction ls as [|l0 r IH]; intros a base l H; cbn [afirst_letter] in H.
  - destruct (bytes_eqb a base) eqn:E; [|discriminate]. inversion H; subst. rewrite app_nil_r. symmetry. apply bytes_eqb_eq. exact E.
  - destruct (bytes_eqb a (base ++ l0)) eqn:E; [inversion H; subst; symmetry; apply bytes_eqb_eq; exact E | apply IH; exact H].
Qed.
Lemma first_letter_nil : forall ls base, first_letter (list tok) t_detect [] base ls = None.
Proof. induction ls as [|l r IH]; intro base; cbn [first_letter t_detect]; [reflexivity | apply IH]. Qed.

Lemma cur_in_cons : forall a r (c : list tok), cur_in (HCons a r) c -> exists x rest, c = (a, x) :: rest /\ matches r (map fst rest).
Proof.
  intros a r c [w' [E M]]. destruct c as [|[a' x] rest]; [discriminate|]. cbn [map fst] in E. inversion E; subst.
  exists x, rest. split; [reflexivity | exact M].
Qed.

Lemma detect_head : forall (s : tst) a x rest tag, cur s = (a, x) :: rest -> t_detect (cur s) tag = bytes_eqb a tag.
Proof. intros s a x rest tag H. rewrite H. reflexivity. Qed.
Lemma first_letter_head : forall (s : tst) a x rest base ls, cur s = (a, x) :: rest ->
  first_letter (list tok) t_detect (cur s) base ls = afirst_letter a base ls.
Proof. intros s a x rest base ls H. rewrite H. apply afirst_sound. Qed.

(* a mandatory extraction at a matching head: either the duplicate check fires or the field is popped *)
Lemma extract_field_req : forall (s : tst) tag x rest,
  cur s = (tag, x) :: rest ->
  extract_field (list tok) t_detect t_extract s tag false = XErr _ (EDuplicate tag) \/
  extract_field (list tok) t_detect t_extract s tag false = XOk _ x (popped s tag rest).
Proof.
  intros s tag x rest Hc. unfold extract_field.
  destruct (negb (dup s) && mem tag (seen s) && negb false) eqn:E; [left; reflexivity|].
  right. rewrite Hc. cbn [t_detect t_extract]. rewrite bytes_eqb_refl. reflexivity.
Qed.

Definition call_result (x : stmt) (S' : ast) (s : tst) : Prop :=
  (exists p s1 d, call' x s = Some (COk _ p s1, d) /\ G S' (bind _ s1 d p)) \/
  (lax = true /\ exists e s1 d, call' x s = Some (CErr _ e s1, d)).

Lemma acall1_sound : forall x S h S' (s : tst),
  acall1 fp U lax x S h = Ok S' -> G S s -> cur_in h (cur s) -> call_result x S' s.
Proof.
  intros x S h S' s H HG Hh. unfold call_result. destruct x; cbn [acall1] in H; try discriminate; cbn [call].
  - (* SReq *)
    destruct h as [|a r].
    + unfold rej in H. destruct lax; [|discriminate]. right. split; [reflexivity|].
      unfold cur_in in Hh. cbn [hd_in] in Hh. destruct (cur s) as [|k c] eqn:Ec; [|discriminate].
      unfold call_req, extract_field. rewrite Ec. cbn [t_detect].
      destruct (negb (dup s) && mem tag (seen s) && negb false); eexists _, _, _; reflexivity.
    + destruct (cur_in_cons _ _ _ Hh) as [x [rest [Hc Hm]]]. destruct (bytes_eqb a tag) eqn:Ea.
      * apply bytes_eqb_eq in Ea. subst a.
        destruct (nodup_ok S tag || lax) eqn:En; [|discriminate].
        destruct (consumed_sound S S' s ty None tag r d x rest HG Hc Hm H) as [HS HF].
        unfold call_req.
        assert (EX : extract_field (list tok) t_detect t_extract s tag false = XOk _ x (popped s tag rest) \/
                     (lax = true /\ extract_field (list tok) t_detect t_extract s tag false = XErr _ (EDuplicate tag))).
        { destruct (nodup_ok S tag) eqn:En2.
          - left. apply (extract_field_ok s tag x rest false Hc).
            destruct (nodup_ok_sound S s tag HG En2) as [K|K]; [left; exact K | right; left; exact K].
          - cbn [orb] in En. destruct (extract_field_req s tag x rest Hc) as [K|K]; [right; split; [exact En | exact K] | left; exact K]. }
        destruct EX as [EX|[EL EX]]; rewrite EX.
        -- destruct (fparse ty None x) eqn:Hp.
           ++ left. eexists _, _, _. split; [reflexivity | apply HS; reflexivity].
           ++ right. split; [apply HF; reflexivity | eexists _, _, _; reflexivity].
        -- right. split; [exact EL | eexists _, _, _; reflexivity].
      * unfold rej in H. destruct lax; [|discriminate]. right. split; [reflexivity|].
        unfold call_req, extract_field. rewrite (detect_head s a x rest tag Hc), Ea.
        destruct (negb (dup s) && mem tag (seen s) && negb false); eexists _, _, _; reflexivity.
  - (* SOpt *)
    destruct h as [|a r].
    + inversion H; subst; clear H. left. unfold call_opt. unfold cur_in in Hh. cbn [hd_in] in Hh.
      destruct (cur s) as [|k c] eqn:Ec; [|discriminate]. cbn [t_detect negb].
      eexists _, _, _. split; [reflexivity|]. apply G_bind. apply (G_with_cur S s _ HEmpty HG); [left; reflexivity|].
      unfold cur_in. rewrite Ec. reflexivity.
    + destruct (cur_in_cons _ _ _ Hh) as [x [rest [Hc Hm]]]. destruct (bytes_eqb a tag) eqn:Ea.
      * apply bytes_eqb_eq in Ea. subst a.
        destruct (consumed_sound S S' s ty None tag r d x rest HG Hc Hm H) as [HS HF].
        unfold call_opt. rewrite (detect_head s tag x rest tag Hc), bytes_eqb_refl. cbn [negb].
        rewrite (extract_field_ok s tag x rest true Hc) by (right; right; reflexivity).
        destruct (fparse ty None x) eqn:Hp.
        -- left. eexists _, _, _. split; [reflexivity | apply HS; reflexivity].
        -- right. split; [apply HF; reflexivity | eexists _, _, _; reflexivity].
      * inversion H; subst; clear H. left. unfold call_opt. rewrite (detect_head s a x rest tag Hc), Ea. cbn [negb].
        eexists _, _, _. split; [reflexivity|]. apply G_bind. apply (G_with_cur S s _ (HCons a r) HG); [left; reflexivity | exact Hh].
  - (* SReqV *)
    destruct h as [|a r].
    + unfold rej in H. destruct lax; [|discriminate]. right. split; [reflexivity|].
      unfold cur_in in Hh. cbn [hd_in] in Hh. destruct (cur s) as [|k c] eqn:Ec; [|discriminate].
      unfold call_reqv. rewrite Ec, first_letter_nil. eexists _, _, _; reflexivity.
    + destruct (cur_in_cons _ _ _ Hh) as [x [rest [Hc Hm]]].
      destruct (afirst_letter a base letters7) as [l|] eqn:El.
      * destruct (nodup_ok S a || lax) eqn:En; [|discriminate].
        destruct (consumed_sound S S' s fam (Some l) a r d x rest HG Hc Hm H) as [HS HF].
        unfold call_reqv. rewrite (first_letter_head s a x rest base letters7 Hc), El. rewrite (afirst_tag _ _ _ _ El).
        assert (EX : extract_field (list tok) t_detect t_extract s a false = XOk _ x (popped s a rest) \/
                     (lax = true /\ extract_field (list tok) t_detect t_extract s a false = XErr _ (EDuplicate a))).
        { destruct (nodup_ok S a) eqn:En2.
          - left. apply (extract_field_ok s a x rest false Hc).
            destruct (nodup_ok_sound S s a HG En2) as [K|K]; [left; exact K | right; left; exact K].
          - cbn [orb] in En. destruct (extract_field_req s a x rest Hc) as [K|K]; [right; split; [exact En | exact K] | left; exact K]. }
        destruct EX as [EX|[EL EX]]; rewrite EX.
        -- destruct (fparse fam (Some l) x) eqn:Hp.
           ++ left. eexists _, _, _. split; [reflexivity | apply HS; reflexivity].
           ++ right. split; [apply HF; reflexivity | eexists _, _, _; reflexivity].
        -- right. split; [exact EL | eexists _, _, _; reflexivity].
      * unfold rej in H. destruct lax; [|discriminate]. right. split; [reflexivity|].
        unfold call_reqv. rewrite (first_letter_head s a x rest base letters7 Hc), El. eexists _, _, _; reflexivity.
  - (* SOptV *)
    destruct h as [|a r].
    + inversion H; subst; clear H. left. unfold call_optv. unfold cur_in in Hh. cbn [hd_in] in Hh.
      destruct (cur s) as [|k c] eqn:Ec; [|discriminate]. rewrite first_letter_nil.
      eexists _, _, _. split; [reflexivity|]. apply G_bind. apply (G_with_cur S s _ HEmpty HG); [left; reflexivity|].
      unfold cur_in. rewrite Ec. reflexivity.
    + destruct (cur_in_cons _ _ _ Hh) as [x [rest [Hc Hm]]]. destruct (afirst_letter a base letters7) as [l|] eqn:El.
      * destruct (consumed_sound S S' s fam (Some l) a r d x rest HG Hc Hm H) as [HS HF].
        unfold call_optv. rewrite (first_letter_head s a x rest base letters7 Hc), El. rewrite (afirst_tag _ _ _ _ El).
        rewrite (extract_field_ok s a x rest true Hc) by (right; right; reflexivity).
        destruct (fparse fam (Some l) x) eqn:Hp.
        -- left. eexists _, _, _. split; [reflexivity | apply HS; reflexivity].
        -- right. split; [apply HF; reflexivity | eexists _, _, _; reflexivity].
      * inversion H; subst; clear H. left. unfold call_optv. rewrite (first_letter_head s a x rest base letters7 Hc), El.
        eexists _, _, _. split; [reflexivity|]. apply G_bind. apply (G_with_cur S s _ (HCons a r) HG); [left; reflexivity | exact Hh].
Qed.

Lemma call_result_weaken : forall x A B (s : tst), (forall s', G A s' -> G B s') -> call_result x A s -> call_result x B s.
Proof.
  intros x A B s W [[p [s1 [d [Hc HS]]]]|R]; [left | right; exact R].
  exists p, s1, d. split; [exact Hc | apply W; exact HS].
Qed.

Lemma acall_all_sound : forall x S hs S' (s : tst) h,
  acall_all fp U lax x S hs = Ok S' -> G S s -> In h hs -> cur_in h (cur s) -> call_result x S' s.
Proof.
  intros x S hs. induction hs as [|h0 r IH]; intros S' s h H HG Hin Hh; [contradiction|].
  cbn [acall_all] in H. destruct (acall1 fp U lax x S h0) as [A|] eqn:E1; [|discriminate].
  destruct (acall_all fp U lax x S r) as [B|] eqn:E2; [|discriminate]. inversion H; subst; clear H.
  destruct Hin as [Hin|Hin].
  - subst h0. apply (call_result_weaken x A); [intros s' K; apply ajoin_l; exact K|].
    exact (acall1_sound x S h A s E1 HG Hh).
  - apply (call_result_weaken x B); [intros s' K; apply ajoin_r; exact K|].
    exact (IH B s h eq_refl HG Hin Hh).
Qed.

Lemma acall_sound : forall x S S' (s : tst), acall fp U lax x S = Ok S' -> G S s -> call_result x S' s.
Proof.
  intros x S S' s H HG. destruct HG as [[h [Hin Hh]] HR].
  apply (acall_all_sound x S (a_cur S) S' s h H); [split; [exists h; split; assumption | exact HR] | exact Hin | exact Hh].
Qed.

(* ---- flows *)
Definition GF (o : aout) (fl : flow (list tok)) : Prop :=
  match fl with
  | FNext _ s => G (o_next o) s
  | FBreak _ s => G (o_break o) s
  | FReturnOk _ _ => o_ret o = true
  | FOutOfFuel _ => True
  | FReject _ _ => lax = true
  | FStuck _ => False
  end.

Definition run_sound (run : list stmt -> ast -> res aout) : Prop :=
  forall ss S o, run ss S = Ok o -> forall f (s : tst), G S s -> GF o (exec' f ss s).

Lemma GF_ojoin_l : forall a b fl, GF a fl -> GF (ojoin a b) fl.
Proof.
  intros a b fl H. destruct fl; cbn [GF ojoin o_next o_break o_ret] in *; try exact H.
  - apply ajoin_l. exact H.
  - apply ajoin_l. exact H.
  - rewrite H. reflexivity.
Qed.
Lemma GF_ojoin_r : forall a b fl, GF b fl -> GF (ojoin a b) fl.
Proof.
  intros a b fl H. destruct fl; cbn [GF ojoin o_next o_break o_ret] in *; try exact H.
  - apply ajoin_r. exact H.
  - apply ajoin_r. exact H.
  - rewrite H. apply orb_true_r.
Qed.

(* a block, then the rest of the list *)
Lemma GF_continue : forall o o2 bf (K : tst -> flow (list tok)),
  GF o bf -> (forall s', G (o_next o) s' -> GF o2 (K s')) ->
  GF {| o_next := o_next o2; o_break := ajoin (o_break o) (o_break o2); o_ret := o_ret o || o_ret o2 |}
     (match bf with FNext _ s' => K s' | other => other end).
Proof.
  intros o o2 bf K H HK. destruct bf as [s'|s'|s'|e| |]; cbn [GF] in H.
  - specialize (HK s' H). destruct (K s') as [s2|s2|s2|e| |]; cbn [GF o_next o_break o_ret] in *; try exact HK.
    + apply ajoin_r. exact HK.
    + rewrite HK. apply orb_true_r.
  - cbn [GF o_break]. apply ajoin_l. exact H.
  - cbn [GF o_ret]. rewrite H. reflexivity.
  - exact H.
  - exact I.
  - contradiction.
Qed.

(* ---- the loop *)
Definition GL (l : list ast) (s : tst) : Prop := exists E, In E l /\ G E s.

Lemma add_exit_old : forall E l s, GL l s -> GL (add_exit E l) s.
Proof.
  intros E l s [X [Hin HX]]. unfold add_exit. destruct (is_bot E); [exists X; split; assumption|].
  destruct (existsb (aleq E) l); [exists X; split; assumption|].
  destruct (Nat.ltb (List.length l) 8); [exists X; split; [right; exact Hin | exact HX]|].
  destruct l as [|Y r]; [contradiction|]. destruct Hin as [Hin|Hin].
  - subst Y. exists (ajoin X E). split; [left; reflexivity | apply ajoin_l; exact HX].
  - exists X. split; [right; exact Hin | exact HX].
Qed.
Lemma add_exit_new : forall E l s, G E s -> GL (add_exit E l) s.
Proof.
  intros E l s HE. unfold add_exit. rewrite (G_not_bot E s HE).
  destruct (existsb (aleq E) l) eqn:Ex.
  - apply existsb_exists in Ex. destruct Ex as [X [Hin HL]]. exists X. split; [exact Hin | exact (aleq_sound E X s HL HE)].
  - destruct (Nat.ltb (List.length l) 8); [exists E; split; [left; reflexivity | exact HE]|].
    destruct l as [|Y r]; [exists E; split; [left; reflexivity | exact HE]|].
    exists (ajoin Y E). split; [left; reflexivity | apply ajoin_r; exact HE].
Qed.

Lemma aloop_mono : forall run k joined c body S exits ret E R,
  aloop run k joined c body S exits ret = Ok (E, R) ->
  (forall s : tst, GL exits s -> GL E s) /\ (ret = true -> R = true).
Proof.
  intros run k. induction k as [|k IH]; intros joined c body S exits ret E R H; cbn [aloop] in H; [discriminate|].
  destruct (asplit c S) as [[St Sf]|] eqn:Es; [|discriminate].
  destruct (run body St) as [ob|] eqn:Er; [|discriminate].
  destruct (aleq (o_next ob) S).
  - inversion H; subst; clear H. split; [intros s Hs; apply add_exit_old; apply add_exit_old; exact Hs | intro Hr; rewrite Hr; reflexivity].
  - destruct (IH _ _ _ _ _ _ _ _ H) as [A B]. split.
    + intros s Hs. apply A. apply add_exit_old. apply add_exit_old. exact Hs.
    + intro Hr. apply B. rewrite Hr. reflexivity.
Qed.

Lemma GF_loop_out : forall o2 R fl, GF o2 fl ->
  GF {| o_next := o_next o2; o_break := o_break o2; o_ret := R || o_ret o2 |} fl.
Proof.
  intros o2 R fl H. destruct fl; cbn [GF o_next o_break o_ret] in *; try exact H. rewrite H. apply orb_true_r.
Qed.

Lemma aloop_sound : forall run, run_sound run -> forall k joined c body S exits ret E R,
  aloop run k joined c body S exits ret = Ok (E, R) ->
  forall rest o2, (forall f (s' : tst), GL E s' -> GF o2 (exec' f rest s')) ->
  forall f (s : tst), G S s ->
  GF {| o_next := o_next o2; o_break := o_break o2; o_ret := R || o_ret o2 |} (exec' f (SWhile c body :: rest) s).
Proof.
  intros run RS k. induction k as [|k IHk]; intros joined c body S exits ret E R H rest o2 Hrest; cbn [aloop] in H; [discriminate|].
  destruct (asplit c S) as [[St Sf]|] eqn:Es; [|discriminate].
  destruct (run body St) as [ob|] eqn:Er; [|discriminate].
  set (exits' := add_exit (o_break ob) (add_exit Sf exits)) in *.
  set (ret' := ret || o_ret ob) in *.
  assert (STEP : forall (E0 : list ast) (R0 : bool),
            (forall s : tst, GL exits' s -> GL E0 s) -> (ret' = true -> R0 = true) ->
            (forall f (s' : tst), GL E0 s' -> GF o2 (exec' f rest s')) ->
            forall f0 (s : tst), G S s ->
            (forall s' : tst, G (o_next ob) s' ->
               GF {| o_next := o_next o2; o_break := o_break o2; o_ret := R0 || o_ret o2 |} (exec' f0 (SWhile c body :: rest) s')) ->
            GF {| o_next := o_next o2; o_break := o_break o2; o_ret := R0 || o_ret o2 |} (exec' (Datatypes.S f0) (SWhile c body :: rest) s)).
  { intros E0 R0 ME MR HR f0 s HG HN. unfold texec. cbn [exec].
    destruct (asplit_sound c S St Sf s Es HG) as [A1 A2].
    destruct (eval' c s) eqn:Ev.
    - pose proof (RS body St ob Er f0 s (A1 eq_refl)) as Hb. unfold texec in Hb.
      destruct (exec (list tok) t_detect t_extract t_complete fparse f0 body s) as [s1|s1|s1|e| |]; cbn [GF] in Hb.
      + apply HN. exact Hb.
      + apply GF_loop_out. apply HR. apply ME. unfold exits'. apply add_exit_new. exact Hb.
      + cbn [GF o_ret]. rewrite (MR ltac:(unfold ret'; rewrite Hb; apply orb_true_r)). reflexivity.
      + exact Hb.
      + exact I.
      + contradiction.
    - apply GF_loop_out. apply HR. apply ME. unfold exits'. apply add_exit_old. apply add_exit_new. apply A2. reflexivity. }
  destruct (aleq (o_next ob) S) eqn:EL.
  - inversion H; subst E R; clear H.
    intro f. induction f as [|f0 IHf]; intros s HG; [exact I|].
    apply (STEP exits' ret' (fun s0 K => K) (fun K => K) Hrest f0 s HG).
    intros s' Hs'. apply IHf. exact (aleq_sound _ _ _ EL Hs').
  - destruct (aloop_mono _ _ _ _ _ _ _ _ _ _ H) as [ME MR].
    intros f s HG. destruct f as [|f0]; [exact I|].
    apply (STEP E R ME MR Hrest f0 s HG).
    intros s' Hs'. apply (IHk _ _ _ _ _ _ _ _ H rest o2 Hrest f0 s').
    destruct (joined && forallb (fun h => hd_mem h (a_cur S)) (a_cur (o_next ob)) && forallb (fun h => hd_mem h (a_cur (o_next ob))) (a_cur S));
      [apply ajoin_r; exact Hs' | exact Hs'].
Qed.

Lemma acont_sound : forall run, run_sound run -> forall r Es o2, acont run r Es = Ok o2 ->
  forall f (s' : tst), GL Es s' -> GF o2 (exec' f r s').
Proof.
  intros run RS r Es. induction Es as [|E t IH]; intros o2 H f s' [X [Hin HX]]; [contradiction|].
  cbn [acont] in H. destruct (run r E) as [a|] eqn:Ea; [|discriminate].
  destruct (acont run r t) as [b|] eqn:Eb; [|discriminate]. inversion H; subst; clear H.
  destruct Hin as [Hin|Hin].
  - subst X. apply GF_ojoin_l. exact (RS r E a Ea f s' HX).
  - apply GF_ojoin_r. apply (IH b eq_refl f s'). exists X. split; assumption.
Qed.

(* ---- peek *)
Lemma apeek_sound : forall run, run_sound run -> forall ls base arms d S hs o,
  apeek run ls base arms d S hs = Ok o -> forall (s : tst) h f, G S s -> In h hs -> cur_in h (cur s) ->
  GF o (match first_letter (list tok) t_detect (cur s) base ls with
        | None => FNext _ s
        | Some l => exec' f (pick_arm l arms d) s
        end).
Proof.
  intros run RS ls base arms d S hs. induction hs as [|h0 r IH]; intros o H s h f HG Hin Hh; [contradiction|].
  cbn [apeek] in H.
  destruct Hin as [Hin|Hin].
  - subst h0. assert (HGh : G (a_with_cur S [h]) s) by (apply (G_with_cur S s _ h HG); [left; reflexivity | exact Hh]).
    destruct h as [|a r0].
    + destruct (apeek run ls base arms d S r) as [b|]; [|discriminate]. inversion H; subst; clear H.
      unfold cur_in in Hh. cbn [hd_in] in Hh. destruct (cur s) as [|k c] eqn:Ec; [|discriminate].
      rewrite first_letter_nil. apply GF_ojoin_l. cbn [GF o_next]. exact HGh.
    + destruct (cur_in_cons _ _ _ Hh) as [x [rest [Hc Hm]]].
      rewrite (first_letter_head s a x rest base ls Hc).
      destruct (afirst_letter a base ls) as [l|].
      * destruct (run (pick_arm l arms d) (a_with_cur S [HCons a r0])) as [oa|] eqn:Er; [|discriminate].
        destruct (apeek run ls base arms d S r) as [b|]; [|discriminate]. inversion H; subst; clear H.
        apply GF_ojoin_l. exact (RS _ _ _ Er f s HGh).
      * destruct (apeek run ls base arms d S r) as [b|]; [|discriminate]. inversion H; subst; clear H.
        apply GF_ojoin_l. cbn [GF o_next]. exact HGh.
  - destruct (match h0 with
              | HEmpty => Ok {| o_next := a_with_cur S [h0]; o_break := bot; o_ret := false |}
              | HCons a _ => match afirst_letter a base ls with
                             | Some l => run (pick_arm l arms d) (a_with_cur S [h0])
                             | None => Ok {| o_next := a_with_cur S [h0]; o_break := bot; o_ret := false |}
                             end
              end) as [oa|]; [|discriminate].
    destruct (apeek run ls base arms d S r) as [b|] eqn:Eb; [|discriminate]. inversion H; subst; clear H.
    apply GF_ojoin_r. exact (IH b eq_refl s h f HG Hin Hh).
Qed.

(* ---- the interpreter *)
Lemma G_set_dup : forall S (s : tst) b, G S s ->
  G {| a_cur := a_cur S; a_seen := a_seen S; a_dup := Some b; a_env := a_env S |} (set_dup _ s b).
Proof. intros S s b [Hc [Hg [Hs [_ He]]]]. unfold G. cbn. repeat split; try assumption. Qed.

Theorem asexec_sound : forall n, run_sound (asexec fp U lax n).
Proof.
  induction n as [|n IH]; intros ss S o H f s HG; [discriminate|].
  cbn [asexec] in H. rewrite (G_not_bot S s HG) in H.
  destruct ss as [|x r].
  - inversion H; subst; clear H. unfold texec. destruct f; [exact I | cbn [exec GF o_next]; exact HG].
  - destruct f as [|f0]; [exact I|]. unfold texec. cbn [exec].
    assert (CALL : forall x0 S', acall fp U lax x0 S = Ok S' -> asexec fp U lax n r S' = Ok o ->
              GF o (match call' x0 s with
                    | Some (COk _ p s', d) => exec (list tok) t_detect t_extract t_complete fparse f0 r (bind _ s' d p)
                    | Some (CErr _ e _, _) => FReject _ e
                    | None => FStuck _
                    end)).
    { intros x0 S' Ec Hr. destruct (acall_sound _ _ _ s Ec HG) as [[p [s1 [d0 [Hc HS]]]]|[EL [e [s1 [d0 Hc]]]]]; rewrite Hc.
      - exact (IH r S' o Hr f0 _ HS).
      - exact EL. }
    destruct x.
    + destruct (acall fp U lax (SReq ty tag d) S) as [S'|] eqn:Ec; [|discriminate]. exact (CALL _ _ Ec H).
    + destruct (acall fp U lax (SOpt ty tag d) S) as [S'|] eqn:Ec; [|discriminate]. exact (CALL _ _ Ec H).
    + destruct (acall fp U lax (SReqV fam base d) S) as [S'|] eqn:Ec; [|discriminate]. exact (CALL _ _ Ec H).
    + destruct (acall fp U lax (SOptV fam base d) S) as [S'|] eqn:Ec; [|discriminate]. exact (CALL _ _ Ec H).
    + exact (IH r _ o H f0 _ (G_set_dup S s b HG)).
    + apply (IH r _ o H f0). apply G_set; [exact HG|]. apply in_anat_succ. apply (proj2 (proj2 (proj2 (proj2 HG)))).
    + apply (IH r _ o H f0). apply G_set; [exact HG | apply in_anat_exact].
    + apply (IH r _ o H f0). apply G_set; [exact HG | apply in_anat_exact].
    + (* while *)
      destruct (aloop (asexec fp U lax n) loop_fuel false c body S [] false) as [[Es R]|] eqn:El; [|discriminate].
      destruct (acont (asexec fp U lax n) r Es) as [o2|] eqn:Er; [|discriminate]. inversion H; subst; clear H.
      exact (aloop_sound _ IH _ _ _ _ _ _ _ _ _ El r o2 (acont_sound _ IH r Es o2 Er) (Datatypes.S f0) s HG).
    + (* if *)
      destruct (asplit c S) as [[St Sf]|] eqn:Es; [|discriminate].
      destruct (asexec fp U lax n th St) as [ot|] eqn:Et; [|discriminate].
      destruct (asexec fp U lax n el Sf) as [oe|] eqn:Ee; [|discriminate].
      destruct (asexec fp U lax n r (o_next (ojoin ot oe))) as [o2|] eqn:Er; [|discriminate]. inversion H; subst; clear H.
      set (bf := exec (list tok) t_detect t_extract t_complete fparse f0 (if eval' c s then th else el) s).
      assert (Hb : GF (ojoin ot oe) bf).
      { unfold bf. destruct (asplit_sound c S St Sf s Es HG) as [A1 A2]. destruct (eval' c s).
        - apply GF_ojoin_l. exact (IH th St ot Et f0 s (A1 eq_refl)).
        - apply GF_ojoin_r. exact (IH el Sf oe Ee f0 s (A2 eq_refl)). }
      pose proof (GF_continue (ojoin ot oe) o2 bf (fun s' => exec (list tok) t_detect t_extract t_complete fparse f0 r s') Hb
                    (fun s' Hs' => IH r _ o2 Er f0 s' Hs')) as K.
      clearbody bf. destruct bf; exact K.
    + inversion H; subst. exact HG.
    + destruct lax eqn:EL; [|discriminate]. cbn [GF]. exact EL.
    + (* peek *)
      destruct (apeek (asexec fp U lax n) (if all_letters then letters26 else letters7) base arms default S (a_cur S)) as [op|] eqn:Ep; [|discriminate].
      destruct (asexec fp U lax n r (o_next op)) as [o2|] eqn:Er; [|discriminate]. inversion H; subst; clear H.
      destruct HG as [[h [Hin Hh]] HR].
      assert (HG : G S s) by (split; [exists h; split; assumption | exact HR]).
      pose proof (apeek_sound _ IH _ _ _ _ _ _ _ Ep s h f0 HG Hin Hh) as Hp.
      pose proof (GF_continue op o2 _ (fun s' => exec (list tok) t_detect t_extract t_complete fparse f0 r s') Hp
                    (fun s' Hs' => IH r _ o2 Er f0 s' Hs')) as K.
      destruct (first_letter (list tok) t_detect (cur s) base (if all_letters then letters26 else letters7)) as [l|]; [|exact K].
      unfold texec in K. destruct (exec (list tok) t_detect t_extract t_complete fparse f0 (pick_arm l arms default) s); exact K.
    + discriminate.
    + discriminate.
    + (* verify complete *)
      destruct HG as [[h [Hin Hh]] HR].
      assert (HG : G S s) by (split; [exists h; split; assumption | exact HR]).
      rewrite (cur_in_complete h (cur s) Hh).
      destruct lax eqn:EL.
      * destruct (is_empty_hd h) eqn:Eh; [|exact EL].
        apply (IH r _ o H f0 (set_verified _ s true)).
        apply (G_with_cur S s _ h HG); [apply filter_In; split; assumption | exact Hh].
      * destruct (forallb is_empty_hd (a_cur S)) eqn:Ef; [|discriminate].
        rewrite forallb_forall in Ef. rewrite (Ef h Hin).
        exact (IH r S o H f0 (set_verified _ s true) HG).
    + inversion H; subst. reflexivity.
Qed.

End Sound.

(* ---- a layout that passes [includes] accepts every text whose tag sequence is a word of the expression;
        a layout that passes [excludes] rejects every such text *)
Lemma t_extract_shrinks' : forall (c : list tok) tag x c', t_extract c tag = Some (x, c') -> List.length c' < List.length c.
Proof.
  intros c tag x c' H. unfold t_extract in H. destruct c as [|[t y] r]; [discriminate|].
  destruct (bytes_eqb t tag); [|discriminate]. inversion H; subst. cbn. lia.
Qed.

Lemma G_start : forall fparse fp U R toks, matches R (map fst toks) -> Forall (good fparse fp U) toks ->
  G fparse fp U (start R) (init (list tok) toks).
Proof.
  intros fparse fp U R toks Hm Hgood. unfold G, start, init. cbn [a_cur a_seen a_dup cur seen dup]. repeat split.
  - destruct (hnf_live_sound R _ Hm) as [h [Hin Hh]]. exists h. split; assumption.
  - exact Hgood.
  - intros t Ht. discriminate.
Qed.

Theorem includes_accepts : forall fparse fp U n L R, includes fp U n L R = true -> loops_ok L = true ->
  forall toks, matches R (map fst toks) -> Forall (good fparse fp U) toks ->
  forall f, lsize L + List.length toks + 1 <= f -> exists its, trun fparse f L toks = Accept its.
Proof.
  intros fparse fp U n L R Hinc Hloops toks Hm Hgood f Hf. unfold includes in Hinc.
  destruct (asexec fp U false n L (start R)) as [o|] eqn:Ea; [|discriminate].
  apply andb_prop in Hinc. destruct Hinc as [Hinc Hb]. apply andb_prop in Hinc. destruct Hinc as [_ Hn].
  pose proof (asexec_sound fparse fp U false n L (start R) o Ea f (init (list tok) toks) (G_start fparse fp U R toks Hm Hgood)) as K.
  pose proof (exec_fuel_bound (list tok) t_detect t_extract t_complete (@List.length tok) t_extract_shrinks' fparse f L (init (list tok) toks) Hloops Hf) as NF.
  unfold trun, run. unfold texec in K.
  destruct (exec (list tok) t_detect t_extract t_complete fparse f L (init (list tok) toks)) as [s1|s1|s1|e| |]; cbn [GF] in K.
  - exfalso. pose proof (G_not_bot _ _ _ _ _ K) as Z. rewrite Z in Hn. discriminate.
  - exfalso. pose proof (G_not_bot _ _ _ _ _ K) as Z. rewrite Z in Hb. discriminate.
  - eexists. reflexivity.
  - discriminate.
  - exfalso. apply NF. reflexivity.
  - contradiction.
Qed.

Theorem excludes_rejects : forall fparse fp U n L R, excludes fp U n L R = true -> loops_ok L = true ->
  forall toks, matches R (map fst toks) -> Forall (good fparse fp U) toks ->
  forall f, lsize L + List.length toks + 1 <= f -> exists e, trun fparse f L toks = Reject e.
Proof.
  intros fparse fp U n L R Hexc Hloops toks Hm Hgood f Hf. unfold excludes in Hexc.
  destruct (asexec fp U true n L (start R)) as [o|] eqn:Ea; [|discriminate].
  apply andb_prop in Hexc. destruct Hexc as [Hexc Hr]. apply andb_prop in Hexc. destruct Hexc as [Hexc Hb].
  apply andb_prop in Hexc. destruct Hexc as [_ Hn]. apply negb_true_iff in Hr.
  pose proof (asexec_sound fparse fp U true n L (start R) o Ea f (init (list tok) toks) (G_start fparse fp U R toks Hm Hgood)) as K.
  pose proof (exec_fuel_bound (list tok) t_detect t_extract t_complete (@List.length tok) t_extract_shrinks' fparse f L (init (list tok) toks) Hloops Hf) as NF.
  unfold trun, run. unfold texec in K.
  destruct (exec (list tok) t_detect t_extract t_complete fparse f L (init (list tok) toks)) as [s1|s1|s1|e| |]; cbn [GF] in K.
  - exfalso. pose proof (G_not_bot _ _ _ _ _ K) as Z. rewrite Z in Hn. discriminate.
  - exfalso. pose proof (G_not_bot _ _ _ _ _ K) as Z. rewrite Z in Hb. discriminate.
  - rewrite K in Hr. discriminate.
  - eexists. reflexivity.
  - exfalso. apply NF. reflexivity.
  - contradiction.
Qed.
