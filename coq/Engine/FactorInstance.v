(* Engine/FactorInstance.v — every regenerated layout only asks about colon-free tags, hence the
   byte-level cursor and the token cursor agree on every canonical text; the token-level theorems of
   C01 / C02 / C03 / C09 restated for the byte-level cursor. *)

From Coq Require Import Lia Bool Strings.String.
From SwiftMT Require Import Base.Bytes Base.StrOps Engine.Layout Engine.Tokens Engine.Extract Engine.Facts Engine.Replay
  Engine.Sim Engine.Factor Engine.Instance.

Local Open Scope string_scope.
Local Open Scope list_scope.

Definition layouts_tags : bool := forallb (fun p => tags_ok nocolon (snd p)) all_layouts.

Lemma gen_layouts_tags : layouts_tags = true.
Proof. vm_compute. reflexivity. Qed.

Theorem layout_factor : forall T L, In (T, L) all_layouts ->
  forall crlf fparse fuel w toks, aws w = true -> forallb tok_ok toks = true ->
  brun fparse fuel L (w ++ render crlf toks) = trun fparse fuel L toks.
Proof.
  intros T L H crlf fparse fuel w toks Hw Ht. apply exec_factor; try assumption.
  pose proof gen_layouts_tags as OK. unfold layouts_tags in OK. rewrite forallb_forall in OK. exact (OK (T, L) H).
Qed.

(* C01 at byte level: an accepted canonical text is accounted for field by field *)
Theorem accept_exact_bytes : forall T L, In (T, L) all_layouts ->
  forall crlf fparse fuel w toks its, aws w = true -> forallb tok_ok toks = true ->
  brun fparse fuel L (w ++ render crlf toks) = Accept its ->
  map tok_of its = toks /\ Forall (item_ok fparse) its /\ w ++ render crlf (map tok_of its) = w ++ render crlf toks.
Proof.
  intros T L H crlf fparse fuel w toks its Hw Ht Hr. rewrite (layout_factor T L H) in Hr by assumption.
  destruct (accept_exact fparse L fuel toks its (layout_wf T L H) Hr) as [A B].
  split; [exact A|]. split; [exact B|]. rewrite A. reflexivity.
Qed.

(* C09 at byte level *)
Theorem reject_sound_bytes : forall T L, In (T, L) all_layouts ->
  forall crlf fparse fuel w toks e, aws w = true -> forallb tok_ok toks = true ->
  brun fparse fuel L (w ++ render crlf toks) = Reject e -> reject_ok fparse toks e.
Proof.
  intros T L H crlf fparse fuel w toks e Hw Ht Hr. rewrite (layout_factor T L H) in Hr by assumption.
  pose proof (layout_wf T L H) as W. unfold wf_layout in W. apply andb_true_iff in W.
  exact (reject_sound fparse L fuel toks e (proj1 W) Hr).
Qed.

(* C02 at byte level: the text printed from the parse is accepted again and printing is then stable,
   for any field printer that is accepted again, idempotent and prints clean contents *)
Lemma serial_tok_ok : forall fprint its toks,
  map tok_of its = toks -> forallb tok_ok toks = true ->
  (forall ty l c, content_ok (fprint ty l c) = true) ->
  forallb tok_ok (serial fprint its) = true.
Proof.
  intros fprint its toks E Ht Hp. subst toks. induction its as [|it r IH]; [reflexivity|].
  cbn [map forallb] in Ht. apply andb_prop in Ht. destruct Ht as [H1 H2].
  cbn [serial map forallb]. fold (serial fprint r). rewrite (IH H2), andb_true_r.
  unfold tok_ok in *. cbn [tok_of print_item fst snd] in *. apply andb_prop in H1. destruct H1 as [H1 _].
  rewrite H1, Hp. reflexivity.
Qed.

Theorem msg_roundtrip_bytes : forall T L, In (T, L) all_layouts ->
  forall crlf (fparse : bytes -> option bytes -> bytes -> bool) (fprint : bytes -> option bytes -> bytes -> bytes),
  (forall ty l c ty' l', fparse ty l c = true -> fparse ty' l' c = true -> fparse ty' l' (fprint ty l c) = true) ->
  (forall ty l c, fparse ty l c = true -> fprint ty l (fprint ty l c) = fprint ty l c) ->
  (forall ty l c, content_ok (fprint ty l c) = true) ->
  forall fuel w toks its, aws w = true -> forallb tok_ok toks = true ->
  brun fparse fuel L (w ++ render crlf toks) = Accept its ->
  exists its', brun fparse fuel L (render crlf (serial fprint its)) = Accept its'
               /\ render crlf (serial fprint its') = render crlf (serial fprint its).
Proof.
  intros T L H crlf fparse fprint Ha Hi Hc fuel w toks its Hw Ht Hr.
  rewrite (layout_factor T L H) in Hr by assumption.
  destruct (accept_exact fparse L fuel toks its (layout_wf T L H) Hr) as [A _].
  destruct (msg_roundtrip fparse fprint Ha Hi L fuel toks its (layout_wf T L H) Hr) as [its' [R1 R2]].
  exists its'. split; [|rewrite R2; reflexivity].
  change (render crlf (serial fprint its)) with ([] ++ render crlf (serial fprint its)).
  rewrite (layout_factor T L H); [exact R1 | reflexivity | exact (serial_tok_ok fprint its toks A Ht Hc)].
Qed.

(* the premises are satisfiable: a two-field text *)
Example canonical_text_example :
  let toks := [(bs "20", bs "REF1"); (bs "32A", bs "260930USD1,")] in
  forallb tok_ok toks = true /\ aws [nl] = true /\
  [nl] ++ render false toks = [nl] ++ bs ":20:REF1" ++ [nl] ++ bs ":32A:260930USD1," ++ [nl].
Proof. vm_compute. repeat split; reflexivity. Qed.
