(* Engine/Tokens.v — the token-level cursor: a text block seen as its sequence of field
   occurrences (tag, content).  This is the level at which C01/C09 are stated. *)

From SwiftMT Require Import Base.Bytes Engine.Layout.

Definition tok := (bytes * bytes)%type.

Definition t_detect (c : list tok) (tag : bytes) : bool :=
  match c with (t, _) :: _ => bytes_eqb t tag | [] => false end.
Definition t_extract (c : list tok) (tag : bytes) : option (bytes * list tok) :=
  match c with
  | (t, x) :: r => if bytes_eqb t tag then Some (x, r) else None
  | [] => None
  end.
Definition t_complete (c : list tok) : bool := match c with [] => true | _ => false end.

Definition tst := st (list tok).
Definition texec (fparse : bytes -> option bytes -> bytes -> bool) :=
  exec (list tok) t_detect t_extract t_complete fparse.
Definition trun (fparse : bytes -> option bytes -> bytes -> bool) (fuel : nat) (L : list stmt) (toks : list tok) : outcome :=
  run (list tok) t_detect t_extract t_complete fparse fuel L toks.

Definition tok_of (it : item) : tok := (i_tag it, i_content it).

(* ---- syntactic well-formedness of a layout *)

(* no statement advances the cursor and then discards the result *)
Fixpoint dropfree_stmt (x : stmt) : bool :=
  match x with
  | SWhile _ body => forallb dropfree_stmt body
  | SIf _ th el => forallb dropfree_stmt th && forallb dropfree_stmt el
  | SPeek _ _ arms d =>
      forallb (fun a => match a with (_, b) => forallb dropfree_stmt b end) arms && forallb dropfree_stmt d
  | SWhileLetOk _ _ | STryElse _ _ _ _ => false
  | _ => true
  end.
Definition dropfree (ss : list stmt) : bool := forallb dropfree_stmt ss.

(* `Ok(..)` is returned only directly after a successful completeness check *)
Fixpoint ret_guarded_stmt (x : stmt) : bool :=
  match x with
  | SWhile _ body => (fix go (prev : bool) (l : list stmt) : bool :=
                        match l with
                        | [] => true
                        | SReturnOk :: r => prev && go false r
                        | SVerifyComplete :: r => go true r
                        | y :: r => ret_guarded_stmt y && go false r
                        end) false body
  | SIf _ th el =>
      (fix go (prev : bool) (l : list stmt) : bool :=
         match l with
         | [] => true
         | SReturnOk :: r => prev && go false r
         | SVerifyComplete :: r => go true r
         | y :: r => ret_guarded_stmt y && go false r
         end) false th &&
      (fix go (prev : bool) (l : list stmt) : bool :=
         match l with
         | [] => true
         | SReturnOk :: r => prev && go false r
         | SVerifyComplete :: r => go true r
         | y :: r => ret_guarded_stmt y && go false r
         end) false el
  | SPeek _ _ arms d =>
      forallb (fun a => match a with (_, b) =>
        (fix go (prev : bool) (l : list stmt) : bool :=
           match l with
           | [] => true
           | SReturnOk :: r => prev && go false r
           | SVerifyComplete :: r => go true r
           | y :: r => ret_guarded_stmt y && go false r
           end) false b end) arms &&
      (fix go (prev : bool) (l : list stmt) : bool :=
         match l with
         | [] => true
         | SReturnOk :: r => prev && go false r
         | SVerifyComplete :: r => go true r
         | y :: r => ret_guarded_stmt y && go false r
         end) false d
  | SWhileLetOk _ body =>
      (fix go (prev : bool) (l : list stmt) : bool :=
         match l with
         | [] => true
         | SReturnOk :: r => prev && go false r
         | SVerifyComplete :: r => go true r
         | y :: r => ret_guarded_stmt y && go false r
         end) false body
  | STryElse _ _ th el =>
      (fix go (prev : bool) (l : list stmt) : bool :=
         match l with
         | [] => true
         | SReturnOk :: r => prev && go false r
         | SVerifyComplete :: r => go true r
         | y :: r => ret_guarded_stmt y && go false r
         end) false th &&
      (fix go (prev : bool) (l : list stmt) : bool :=
         match l with
         | [] => true
         | SReturnOk :: r => prev && go false r
         | SVerifyComplete :: r => go true r
         | y :: r => ret_guarded_stmt y && go false r
         end) false el
  | _ => true
  end.

Fixpoint ret_guarded (prev : bool) (l : list stmt) : bool :=
  match l with
  | [] => true
  | SReturnOk :: r => prev && ret_guarded false r
  | SVerifyComplete :: r => ret_guarded true r
  | y :: r => ret_guarded_stmt y && ret_guarded false r
  end.

Definition wf_layout (L : list stmt) : bool := dropfree L && ret_guarded false L.
