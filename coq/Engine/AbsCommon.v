(* Engine/AbsCommon.v — what the inclusion (C03) and rejection (C09) results share: the hypothesis on tokens, the progress of the layouts, a model oracle *)
From Coq Require Import Lia Bool Strings.String.
From SwiftMT Require Import Base.Bytes Engine.Layout Engine.Tokens Engine.Regex Engine.Abs Engine.AbsSound Engine.Total Engine.TotalInstance Engine.Facts Engine.Instance Engine.AbsInstance Family.Model Family.Instance.
From SwiftMT Require Import gen.Families gen.Specs.
Local Open Scope string_scope.
Local Open Scope list_scope.

(* the hypothesis on a token: every parser the layout may apply to it answers as [fp] says *)
Definition good_token (fparse : bytes -> option bytes -> bytes -> bool) (L : list stmt) (k : tok) : Prop :=
  good fparse fp (uses L) k.

Lemma layout_progress : forall T L, lookup T all_layouts = Some L -> loops_ok L = true /\ In (T, L) all_layouts.
Proof.
  intros T L EL. assert (HL : In (T, L) all_layouts) by (apply lookup_some_in; exact EL). split; [|exact HL].
  pose proof gen_layouts_progress as PR. unfold layouts_progress in PR. rewrite forallb_forall in PR.
  exact (PR (T, L) HL).
Qed.

(* the premises are satisfiable: a parser oracle that answers as [fp] says makes every token good, and a concrete
   MT202 cover text is a word of the specification *)
Definition model_fparse (ty : bytes) (l : option bytes) (x : bytes) : bool :=
  match fp ty l [] with Some b => b | None => false end.
Lemma model_good : forall L k, good_token model_fparse L k.
Proof. intros L k ty l b _ H. unfold model_fparse. change (fp ty l []) with (fp ty l (fst k)). rewrite H. reflexivity. Qed.

