(* Engine/Defs.v — definitions of Engine/Instance.v (the extracted runner depends on this file only) *)

From SwiftMT Require Import Base.Bytes Engine.Layout Engine.Tokens Engine.Facts.
From SwiftMT Require Export gen.Layouts.

Fixpoint forallb2 {A : Type} (p : A -> A -> bool) (a b : list A) : bool :=
  match a, b with
  | [], [] => true
  | x :: a', y :: b' => p x y && forallb2 p a' b'
  | _, _ => false
  end.

Definition layouts_ok : bool :=
  forallb (fun p => wf_layout (snd p)) all_layouts
  && forallb (fun p => snd p) layout_entry_ok
  && Nat.eqb (length all_layouts) 30
  && forallb2 bytes_eqb cursor_letters_req letters7 && forallb2 bytes_eqb cursor_letters_opt letters7
  && forallb2 bytes_eqb cursor_letters_peek letters26.

Definition layout_of (T : bytes) : list stmt :=
  match lookup T all_layouts with Some L => L | None => [] end.
