(* Engine/TotalInstance.v — every regenerated layout satisfies the syntactic progress check, hence
   the cursor interpreter answers on every token list with a finite amount of fuel. *)

From Coq Require Import Lia Bool Strings.String.
From SwiftMT Require Import Base.Bytes Base.StrOps Engine.Layout Engine.Tokens Engine.Extract Engine.Total Engine.Defs.

Local Open Scope string_scope.
Local Open Scope list_scope.

Definition layouts_progress : bool := forallb (fun p => loops_ok (snd p)) all_layouts.

Lemma gen_layouts_progress : layouts_progress = true.
Proof. vm_compute. reflexivity. Qed.

Lemma t_extract_shrinks : forall (c : list tok) tag x c', t_extract c tag = Some (x, c') -> length c' < length c.
Proof.
  intros c tag x c' H. unfold t_extract in H. destruct c as [|[t y] r]; [discriminate|].
  destruct (bytes_eqb t tag); [|discriminate]. inversion H; subst. cbn. lia.
Qed.

Lemma b_extract_shrinks : forall (c : bytes) tag x c', b_extract c tag = Some (x, c') -> length c' < length c.
Proof.
  intros c tag x c' H. unfold b_extract in H.
  destruct (extract_field_content c tag) as [[content consumed]|] eqn:E; [|discriminate].
  inversion H; subst. clear H. unfold extract_field_content in E.
  destruct (find (marker tag) c) as [fs|] eqn:F; [|discriminate].
  assert (NE : c <> []).
  { intro Z. subst c. cbn in F. discriminate. }
  assert (POS : 1 <= consumed).
  { cbv zeta in E.
    match type of E with (let '(raw, has_nl) := ?X in _) = _ => destruct X as [raw has_nl] end.
    inversion E; subst. unfold marker. cbn [length]. lia. }
  rewrite skipn_length. destruct c; [contradiction|]. cbn [length]. lia.
Qed.

(* the token cursor: every layout answers on every token list *)
Theorem layout_never_out_of_fuel : forall fparse T L toks,
  In (T, L) all_layouts ->
  exists f, forall g, f <= g -> trun fparse g L toks <> OutOfFuel.
Proof.
  intros fparse T L toks H.
  pose proof gen_layouts_progress as OK. unfold layouts_progress in OK. rewrite forallb_forall in OK.
  specialize (OK (T, L) H). cbn [snd] in OK.
  destruct (exec_terminates (list tok) t_detect t_extract t_complete (@length tok) t_extract_shrinks fparse L (init (list tok) toks) OK) as [f Hf].
  exists f. intros g Lg. specialize (Hf g Lg). unfold trun, run.
  destruct (exec (list tok) t_detect t_extract t_complete fparse g L (init (list tok) toks)); try discriminate.
  exfalso. apply Hf. reflexivity.
Qed.

(* the byte cursor (field_extractor.rs as transcribed): every layout answers on EVERY byte string *)
Theorem layout_never_out_of_fuel_bytes : forall fparse T L (text : bytes),
  In (T, L) all_layouts ->
  exists f, forall g, f <= g -> brun fparse g L text <> OutOfFuel.
Proof.
  intros fparse T L text H.
  pose proof gen_layouts_progress as OK. unfold layouts_progress in OK. rewrite forallb_forall in OK.
  specialize (OK (T, L) H). cbn [snd] in OK.
  destruct (exec_terminates bytes b_detect b_extract b_complete (@length N) b_extract_shrinks fparse L (init bytes text) OK) as [f Hf].
  exists f. intros g Lg. specialize (Hf g Lg). unfold brun, run.
  destruct (exec bytes b_detect b_extract b_complete fparse g L (init bytes text)); try discriminate.
  exfalso. apply Hf. reflexivity.
Qed.

(* explicit fuel: the fuel the extracted runner uses (4 * length + 2000) is always enough *)
Definition layouts_small : bool := forallb (fun p => Nat.leb (lsize (snd p)) 1999) all_layouts.
Lemma gen_layouts_small : layouts_small = true.
Proof. vm_compute. reflexivity. Qed.

Theorem runner_fuel_suffices : forall fparse T L (text : bytes), In (T, L) all_layouts ->
  forall g, 4 * length text + 2000 <= g -> brun fparse g L text <> OutOfFuel.
Proof.
  intros fparse T L text H g Hg.
  pose proof gen_layouts_progress as OK. unfold layouts_progress in OK. rewrite forallb_forall in OK.
  specialize (OK (T, L) H). cbn [snd] in OK.
  pose proof gen_layouts_small as SM. unfold layouts_small in SM. rewrite forallb_forall in SM.
  specialize (SM (T, L) H). cbn [snd] in SM. apply Nat.leb_le in SM.
  assert (B : lsize L + length text + 1 <= g) by lia.
  pose proof (exec_fuel_bound bytes b_detect b_extract b_complete (@length N) b_extract_shrinks fparse g L (init bytes text) OK B) as Hf.
  unfold brun, run.
  destruct (exec bytes b_detect b_extract b_complete fparse g L (init bytes text)); try discriminate.
  exfalso. apply Hf. reflexivity.
Qed.

(* the check is not vacuous: a loop without a mandatory call is refused, and such a loop does run out of every fuel *)
Example progress_check_refuses : loops_ok [SWhile (CDetect (bs "20")) [SOpt (bs "F") (bs "21") DNone]] = false.
Proof. reflexivity. Qed.

Example no_progress_loop_diverges : forall fparse f,
  texec fparse f [SWhile (CNot (CDetect (bs "20"))) []] (init (list tok) []) = FOutOfFuel _.
Proof.
  intros fp f. induction f as [|f IH]; [reflexivity|].
  unfold texec in *. cbn [exec].
  replace (eval (list tok) t_detect t_complete (CNot (CDetect (bs "20"))) (init (list tok) [])) with true by reflexivity.
  destruct f as [|f']; [reflexivity|]. replace (exec (list tok) t_detect t_extract t_complete fp (S f') [] (init (list tok) [])) with (FNext _ (init (list tok) [])) by reflexivity.
  exact IH.
Qed.
