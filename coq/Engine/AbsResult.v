(* Engine/AbsResult.v — the verdict of the abstract interpreter on the regenerated layouts, and what follows from it *)
From Coq Require Import Lia Bool Strings.String.
From SwiftMT Require Import Base.Bytes Engine.Layout Engine.Tokens Engine.Regex Engine.Abs Engine.AbsSound Engine.Total Engine.TotalInstance Engine.Facts Engine.Instance Engine.AbsInstance Family.Model Family.Instance.
From SwiftMT Require Import gen.Families gen.Specs.
Local Open Scope string_scope.
Local Open Scope list_scope.

(* The facts below are stated in the unfolded form the proofs use and proved by one VM evaluation at Qed
   (a lemma stated through a defined constant made later proofs re-evaluate the analysis in the kernel's
   lazy machine: minutes instead of seconds). *)
Lemma gen_inclusion_ok : inclusion_ok = true.
Proof. vm_cast_no_check (eq_refl true). Qed.
Lemma gen_inclusion_forall : forallb (fun p => mem (fst p) inclusion_open || check_type (fst p)) specs = true.
Proof. vm_cast_no_check (eq_refl true). Qed.
Lemma gen_restricted_forall : forallb (fun p => check_restricted (fst p)) specs_restricted = true.
Proof. vm_cast_no_check (eq_refl true). Qed.
Lemma gen_deletions_forall :
  forallb (fun p => forallb (fun d => pair_mem (fst p, fst d) deletion_open || check_deletion (fst p) (snd d)) (snd p)) spec_deletions = true.
Proof. vm_cast_no_check (eq_refl true). Qed.

(* the hypothesis on a token: every parser the layout may apply to it answers as [fp] says *)
Definition good_token (fparse : bytes -> option bytes -> bytes -> bool) (L : list stmt) (k : tok) : Prop :=
  good fparse fp (uses L) k.

Lemma layout_progress : forall T L, lookup T all_layouts = Some L -> loops_ok L = true /\ In (T, L) all_layouts.
Proof.
  intros T L EL. assert (HL : In (T, L) all_layouts) by (apply lookup_some_in; exact EL). split; [|exact HL].
  pose proof gen_layouts_progress as PR. unfold layouts_progress in PR. rewrite forallb_forall in PR.
  exact (PR (T, L) HL).
Qed.

Lemma alts_accept : forall T L alts, lookup T all_layouts = Some L -> check_alts T alts = true ->
  forall fparse toks, spec_lang alts (map fst toks) -> Forall (good_token fparse L) toks ->
  forall f, lsize L + List.length toks + 1 <= f ->
  exists its, trun fparse f L toks = Accept its /\ map tok_of its = toks.
Proof.
  intros T L alts EL OK fparse toks [R [HR Hm]] Hg f Hf.
  unfold check_alts in OK. rewrite EL in OK. rewrite forallb_forall in OK. specialize (OK R HR).
  destruct (layout_progress T L EL) as [PL HL].
  destruct (includes_accepts fparse fp (uses L) 400 L R OK PL toks Hm Hg f Hf) as [its Hits].
  exists its. split; [exact Hits|].
  exact (proj1 (accept_exact fparse L f toks its (layout_wf T L HL) Hits)).
Qed.

Theorem spec_inclusion : forall T L alts, lookup T all_layouts = Some L -> lookup T specs = Some alts -> mem T inclusion_open = false ->
  forall fparse toks, spec_lang alts (map fst toks) -> Forall (good_token fparse L) toks ->
  forall f, lsize L + List.length toks + 1 <= f ->
  exists its, trun fparse f L toks = Accept its /\ map tok_of its = toks.
Proof.
  intros T L alts EL HR Hopen. apply (alts_accept T L alts EL).
  pose proof gen_inclusion_forall as OK. rewrite forallb_forall in OK.
  assert (HinS : In (T, alts) specs) by (apply lookup_some_in; exact HR).
  specialize (OK (T, alts) HinS). cbn [fst] in OK. rewrite Hopen in OK. cbn [orb] in OK.
  unfold check_type in OK. rewrite HR in OK. exact OK.
Qed.

(* ---- the open types: the specification minus the listed deviations is accepted *)
Theorem spec_inclusion_restricted : forall T L alts, lookup T all_layouts = Some L -> lookup T specs_restricted = Some alts ->
  forall fparse toks, spec_lang alts (map fst toks) -> Forall (good_token fparse L) toks ->
  forall f, lsize L + List.length toks + 1 <= f ->
  exists its, trun fparse f L toks = Accept its /\ map tok_of its = toks.
Proof.
  intros T L alts EL HR. apply (alts_accept T L alts EL).
  pose proof gen_restricted_forall as OK. rewrite forallb_forall in OK.
  assert (HinS : In (T, alts) specs_restricted) by (apply lookup_some_in; exact HR).
  specialize (OK (T, alts) HinS). cbn [fst] in OK. unfold check_restricted in OK. rewrite HR in OK. exact OK.
Qed.

(* ---- C09: a text whose tags are a word of the specification with one mandatory element missing is rejected *)
Theorem deletion_rejected : forall T L ds what D, lookup T all_layouts = Some L -> lookup T spec_deletions = Some ds ->
  In (what, D) ds -> pair_mem (T, what) deletion_open = false ->
  forall fparse toks, matches D (map fst toks) -> Forall (good_token fparse L) toks ->
  forall f, lsize L + List.length toks + 1 <= f ->
  exists e, trun fparse f L toks = Reject e /\ reject_ok fparse toks e.
Proof.
  intros T L ds what D EL HD Hin Hopen fparse toks Hm Hg f Hf.
  pose proof gen_deletions_forall as OK. rewrite forallb_forall in OK.
  assert (HinS : In (T, ds) spec_deletions) by (apply lookup_some_in; exact HD).
  specialize (OK (T, ds) HinS). cbn [fst snd] in OK. rewrite forallb_forall in OK. specialize (OK (what, D) Hin).
  cbn [fst snd] in OK. rewrite Hopen in OK. cbn [orb] in OK.
  unfold check_deletion in OK. rewrite EL in OK.
  destruct (layout_progress T L EL) as [PL HL].
  destruct (excludes_rejects fparse fp (uses L) 400 L D OK PL toks Hm Hg f Hf) as [e He].
  exists e. split; [exact He|].
  pose proof (layout_wf T L HL) as W. unfold wf_layout in W. apply andb_true_iff in W.
  exact (reject_sound fparse L f toks e (proj1 W) He).
Qed.

(* the deletion languages that were left out are left out for a reason: each contains a word of the specification *)
Theorem left_out_deletions_are_ambiguous :
  forallb (fun p => forallb (fun d => let '(D, w) := snd d in
                                      matchb D w && match lookup (fst p) specs with Some alts => existsb (fun R => matchb R w) alts | None => false end)
                            (snd p)) spec_deletions_ambiguous = true.
Proof. vm_cast_no_check (eq_refl true). Qed.

(* MT204: the layout reads 19 before 20, the specification says 20 then 19: EVERY word of the specification is rejected *)
Lemma gen_mt204_excluded :
  match lookup (bs "MT204") specs, lookup (bs "MT204") all_layouts with
  | Some alts, Some L => forallb (fun R => excludes fp (uses L) 400 L R) alts
  | _, _ => false
  end = true.
Proof. vm_cast_no_check (eq_refl true). Qed.

Theorem mt204_rejects_its_specification : forall L alts, lookup (bs "MT204") all_layouts = Some L -> lookup (bs "MT204") specs = Some alts ->
  forall fparse toks, spec_lang alts (map fst toks) -> Forall (good_token fparse L) toks ->
  forall f, lsize L + List.length toks + 1 <= f -> exists e, trun fparse f L toks = Reject e.
Proof.
  intros L alts EL HR fparse toks [R [HinR Hm]] Hg f Hf.
  pose proof gen_mt204_excluded as OK. rewrite HR, EL in OK. rewrite forallb_forall in OK. specialize (OK R HinR).
  destruct (layout_progress _ L EL) as [PL _].
  exact (excludes_rejects fparse fp (uses L) 400 L R OK PL toks Hm Hg f Hf).
Qed.

(* the premises are satisfiable: a parser oracle that answers as [fp] says makes every token good, and a concrete
   MT202 cover text is a word of the specification *)
Definition model_fparse (ty : bytes) (l : option bytes) (x : bytes) : bool :=
  match fp ty l [] with Some b => b | None => false end.
Lemma model_good : forall L k, good_token model_fparse L k.
Proof. intros L k ty l b _ H. unfold model_fparse. change (fp ty l []) with (fp ty l (fst k)). rewrite H. reflexivity. Qed.

Example spec_inclusion_is_not_vacuous :
  let toks := map (fun t => (bs t, bs "X")) ["20"; "21"; "13C"; "13C"; "32A"; "52A"; "58D"; "72"; "50F"; "59"; "33B"] in
  match lookup (bs "MT202") specs, lookup (bs "MT202") all_layouts with
  | Some alts, Some L => existsb (fun R => matchb R (map fst toks)) alts = true /\ (exists its, trun model_fparse 400 L toks = Accept its)
  | _, _ => False
  end.
Proof. vm_compute. split; [reflexivity | eexists; reflexivity]. Qed.

Example deletion_is_not_vacuous :
  let toks := map (fun t => (bs t, bs "X")) ["20"; "21"; "58D"] in      (* an MT202 without its mandatory 32A *)
  match lookup (bs "MT202") spec_deletions, lookup (bs "MT202") all_layouts with
  | Some ds, Some L => existsb (fun d => matchb (snd d) (map fst toks)) ds = true /\ (exists e, trun model_fparse 400 L toks = Reject e)
  | _, _ => False
  end.
Proof. vm_compute. split; [reflexivity | eexists; reflexivity]. Qed.
