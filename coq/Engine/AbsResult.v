(* Engine/AbsResult.v — the verdict of the abstract interpreter on the regenerated layouts, and what follows from it *)
From Coq Require Import Lia Bool Strings.String.
From SwiftMT Require Import Base.Bytes Engine.Layout Engine.Tokens Engine.Regex Engine.Abs Engine.AbsSound Engine.Total Engine.TotalInstance Engine.Facts Engine.Instance Engine.AbsInstance Family.Model Family.Instance.
From SwiftMT Require Import gen.Families gen.Specs.
Local Open Scope string_scope.
Local Open Scope list_scope.

Lemma gen_inclusion_ok : inclusion_ok = true.
Proof. vm_compute. reflexivity. Qed.
(* the same fact in the form the proofs below use (stated separately so that no proof term asks the kernel to
   convert [inclusion_ok] into its definition by evaluating the analysis a second time outside the VM) *)
Lemma gen_inclusion_forall : forallb (fun p => mem (fst p) inclusion_open || check_type (fst p)) specs = true.
Proof. vm_compute. reflexivity. Qed.

(* the hypothesis on a token: every parser the layout may apply to it answers as [fp] says *)
Definition good_token (fparse : bytes -> option bytes -> bytes -> bool) (L : list stmt) (k : tok) : Prop :=
  good fparse fp (uses L) k.

Theorem spec_inclusion : forall T L R, lookup T all_layouts = Some L -> lookup T specs = Some R -> mem T inclusion_open = false ->
  forall fparse toks, matches R (map fst toks) -> Forall (good_token fparse L) toks ->
  forall f, lsize L + List.length toks + 1 <= f ->
  exists its, trun fparse f L toks = Accept its /\ map tok_of its = toks.
Proof.
  intros T L R EL HR Hopen fparse toks Hm Hg f Hf.
  pose proof gen_inclusion_forall as OK. rewrite forallb_forall in OK.
  assert (HinS : In (T, R) specs) by (apply lookup_some_in; exact HR).
  specialize (OK (T, R) HinS). cbn [fst] in OK. rewrite Hopen in OK. cbn [orb] in OK.
  unfold check_type in OK. rewrite EL, HR in OK.
  assert (HL : In (T, L) all_layouts) by (apply lookup_some_in; exact EL).
  pose proof gen_layouts_progress as PR. unfold layouts_progress in PR. rewrite forallb_forall in PR.
  pose proof (PR (T, L) HL) as PL. cbn [snd] in PL.
  destruct (includes_accepts fparse fp (uses L) 400 L R OK PL toks Hm Hg f Hf) as [its Hits].
  exists its. split; [exact Hits|].
  exact (proj1 (accept_exact fparse L f toks its (layout_wf T L HL) Hits)).
Qed.

(* the premises are satisfiable: a parser oracle that answers as [fp] says makes every token good, and a concrete
   MT202 cover text is a word of the specification *)
Definition model_fparse (ty : bytes) (l : option bytes) (x : bytes) : bool :=
  match fp ty l [] with Some b => b | None => false end.
Lemma model_good : forall L k, good_token model_fparse L k.
Proof. intros L k ty l b _ H. unfold model_fparse. change (fp ty l []) with (fp ty l (fst k)). rewrite H. reflexivity. Qed.

Example spec_inclusion_is_not_vacuous :
  let toks := map (fun t => (bs t, bs "X")) ["20"; "21"; "13C"; "13C"; "32A"; "52A"; "58D"; "72"; "50F"; "59"; "33B"] in
  match lookup (bs "MT202") specs, lookup (bs "MT202") all_layouts with
  | Some R, Some L => matchb R (map fst toks) = true /\ (exists its, trun model_fparse 400 L toks = Accept its)
  | _, _ => False
  end.
Proof. vm_compute. split; [reflexivity | eexists; reflexivity]. Qed.

(* ---- the open types: the specification minus the listed deviations is accepted *)
Lemma gen_restricted_forall : forallb (fun p => check_restricted (fst p)) specs_restricted = true.
Proof. vm_compute. reflexivity. Qed.

Theorem spec_inclusion_restricted : forall T L R, lookup T all_layouts = Some L -> lookup T specs_restricted = Some R ->
  forall fparse toks, matches R (map fst toks) -> Forall (good_token fparse L) toks ->
  forall f, lsize L + List.length toks + 1 <= f ->
  exists its, trun fparse f L toks = Accept its /\ map tok_of its = toks.
Proof.
  intros T L R EL HR fparse toks Hm Hg f Hf.
  pose proof gen_restricted_forall as OK. rewrite forallb_forall in OK.
  assert (HinS : In (T, R) specs_restricted) by (apply lookup_some_in; exact HR).
  specialize (OK (T, R) HinS). cbn [fst] in OK. unfold check_restricted in OK. rewrite EL, HR in OK.
  assert (HL : In (T, L) all_layouts) by (apply lookup_some_in; exact EL).
  pose proof gen_layouts_progress as PR. unfold layouts_progress in PR. rewrite forallb_forall in PR.
  pose proof (PR (T, L) HL) as PL. cbn [snd] in PL.
  destruct (includes_accepts fparse fp (uses L) 400 L R OK PL toks Hm Hg f Hf) as [its Hits].
  exists its. split; [exact Hits|].
  exact (proj1 (accept_exact fparse L f toks its (layout_wf T L HL) Hits)).
Qed.
