(* Engine/AbsResult.v — C03: the specification's language is included in what the regenerated layouts accept (the verdict of the abstract interpreter, strict mode, and what follows) *)
From Coq Require Import Lia Bool Strings.String.
From SwiftMT Require Import Base.Bytes Engine.Layout Engine.Tokens Engine.Regex Engine.Abs Engine.AbsSound Engine.Total Engine.TotalInstance Engine.Facts Engine.Instance Engine.AbsInstance Engine.AbsCommon Family.Model Family.Instance.
From SwiftMT Require Import gen.Families gen.Specs.
Local Open Scope string_scope.
Local Open Scope list_scope.

(* The facts below are stated in the unfolded form the proofs use and proved by one VM evaluation at Qed
   (a lemma stated through a defined constant made later proofs re-evaluate the analysis in the kernel's
   lazy machine: minutes instead of seconds). *)
Lemma gen_inclusion_ok : inclusion_ok = true.
Proof. vm_cast_no_check (eq_refl true). Qed.
Lemma gen_inclusion_forall : forallb (fun p => mem (fst p) inclusion_open || check_type (fst p)) specs = true.
Proof. vm_cast_no_check (eq_refl true). Qed.
Lemma gen_restricted_forall : forallb (fun p => check_restricted (fst p)) specs_restricted = true.
Proof. vm_cast_no_check (eq_refl true). Qed.
Lemma alts_accept : forall T L alts, lookup T all_layouts = Some L -> check_alts T alts = true ->
  forall fparse toks, spec_lang alts (map fst toks) -> Forall (good_token fparse L) toks ->
  forall f, lsize L + List.length toks + 1 <= f ->
  exists its, trun fparse f L toks = Accept its /\ map tok_of its = toks.
Proof.
  intros T L alts EL OK fparse toks [R [HR Hm]] Hg f Hf.
  unfold check_alts in OK. rewrite EL in OK. rewrite forallb_forall in OK. specialize (OK R HR).
  destruct (layout_progress T L EL) as [PL HL].
  destruct (includes_accepts fparse fp (uses L) 400 L R OK PL toks Hm Hg f Hf) as [its Hits].
  exists its. split; [exact Hits|].
  exact (proj1 (accept_exact fparse L f toks its (layout_wf T L HL) Hits)).
Qed.

Theorem spec_inclusion : forall T L alts, lookup T all_layouts = Some L -> lookup T specs = Some alts -> mem T inclusion_open = false ->
  forall fparse toks, spec_lang alts (map fst toks) -> Forall (good_token fparse L) toks ->
  forall f, lsize L + List.length toks + 1 <= f ->
  exists its, trun fparse f L toks = Accept its /\ map tok_of its = toks.
Proof.
  intros T L alts EL HR Hopen. apply (alts_accept T L alts EL).
  pose proof gen_inclusion_forall as OK. rewrite forallb_forall in OK.
  assert (HinS : In (T, alts) specs) by (apply lookup_some_in; exact HR).
  specialize (OK (T, alts) HinS). cbn [fst] in OK. rewrite Hopen in OK. cbn [orb] in OK.
  unfold check_type in OK. rewrite HR in OK. exact OK.
Qed.

(* ---- the open types: the specification minus the listed deviations is accepted *)
Theorem spec_inclusion_restricted : forall T L alts, lookup T all_layouts = Some L -> lookup T specs_restricted = Some alts ->
  forall fparse toks, spec_lang alts (map fst toks) -> Forall (good_token fparse L) toks ->
  forall f, lsize L + List.length toks + 1 <= f ->
  exists its, trun fparse f L toks = Accept its /\ map tok_of its = toks.
Proof.
  intros T L alts EL HR. apply (alts_accept T L alts EL).
  pose proof gen_restricted_forall as OK. rewrite forallb_forall in OK.
  assert (HinS : In (T, alts) specs_restricted) by (apply lookup_some_in; exact HR).
  specialize (OK (T, alts) HinS). cbn [fst] in OK. unfold check_restricted in OK. rewrite HR in OK. exact OK.
Qed.

(* MT204: the layout reads 19 before 20, the specification says 20 then 19: EVERY word of the specification is rejected *)
Lemma gen_mt204_excluded :
  match lookup (bs "MT204") specs, lookup (bs "MT204") all_layouts with
  | Some alts, Some L => forallb (fun R => excludes fp (uses L) 400 L R) alts
  | _, _ => false
  end = true.
Proof. vm_cast_no_check (eq_refl true). Qed.

Theorem mt204_rejects_its_specification : forall L alts, lookup (bs "MT204") all_layouts = Some L -> lookup (bs "MT204") specs = Some alts ->
  forall fparse toks, spec_lang alts (map fst toks) -> Forall (good_token fparse L) toks ->
  forall f, lsize L + List.length toks + 1 <= f -> exists e, trun fparse f L toks = Reject e.
Proof.
  intros L alts EL HR fparse toks [R [HinR Hm]] Hg f Hf.
  pose proof gen_mt204_excluded as OK. rewrite HR, EL in OK. rewrite forallb_forall in OK. specialize (OK R HinR).
  destruct (layout_progress _ L EL) as [PL _].
  exact (excludes_rejects fparse fp (uses L) 400 L R OK PL toks Hm Hg f Hf).
Qed.

Example spec_inclusion_is_not_vacuous :
  let toks := map (fun t => (bs t, bs "X")) ["20"; "21"; "13C"; "13C"; "32A"; "52A"; "58D"; "72"; "50F"; "59"; "33B"] in
  match lookup (bs "MT202") specs, lookup (bs "MT202") all_layouts with
  | Some alts, Some L => existsb (fun R => matchb R (map fst toks)) alts = true /\ (exists its, trun model_fparse 400 L toks = Accept its)
  | _, _ => False
  end.
Proof. vm_compute. split; [reflexivity | eexists; reflexivity]. Qed.

