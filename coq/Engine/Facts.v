(* Engine/Facts.v — C01 at token level: for every well-formed layout, every field
   implementation [fparse] and every token sequence, acceptance means that the parsed
   items are EXACTLY the tokens of the text, in order, each accepted by its field
   parser.  Induction over the interpreter's fuel; no bound on the number of tokens,
   repetitions or nesting. *)

From SwiftMT Require Import Base.Bytes Engine.Layout Engine.Tokens.

Section Facts.
Variable fparse : bytes -> option bytes -> bytes -> bool.
Variable toks0 : list tok.

Definition item_ok (it : item) : Prop := fparse (i_ty it) (i_letter it) (i_content it) = true.

Definition Inv (s : tst) : Prop :=
  map tok_of (rev (items s)) ++ cur s = toks0 /\
  (verified s = true -> cur s = []) /\
  Forall item_ok (items s).

Notation exec' := (texec fparse).
Notation cstate := (st (list tok)).

Lemma ret_guarded_stmt_while : forall c body, ret_guarded_stmt (SWhile c body) = ret_guarded false body.
Proof. reflexivity. Qed.
Lemma ret_guarded_stmt_if : forall c th el,
  ret_guarded_stmt (SIf c th el) = ret_guarded false th && ret_guarded false el.
Proof. reflexivity. Qed.
Lemma ret_guarded_stmt_peek : forall a b arms d,
  ret_guarded_stmt (SPeek a b arms d) =
  forallb (fun x => match x with (_, body) => ret_guarded false body end) arms && ret_guarded false d.
Proof. reflexivity. Qed.
Lemma ret_guarded_stmt_wlo : forall c body, ret_guarded_stmt (SWhileLetOk c body) = ret_guarded false body.
Proof. reflexivity. Qed.
Lemma ret_guarded_stmt_try : forall c so th el,
  ret_guarded_stmt (STryElse c so th el) = ret_guarded false th && ret_guarded false el.
Proof. reflexivity. Qed.

(* ---- the state-only operations preserve the invariant *)

Lemma inv_set_env : forall s v n, Inv s -> Inv (set_env _ s v n).
Proof. intros s v n H. exact H. Qed.
Lemma inv_set_dup : forall s b, Inv s -> Inv (set_dup _ s b).
Proof. intros s b H. exact H. Qed.
Lemma inv_bind : forall s d p, Inv s -> Inv (bind _ s d p).
Proof.
  intros s d p H. destruct d as [v|v|]; cbn [bind].
  - apply inv_set_env. exact H.
  - destruct p; [apply inv_set_env|]; exact H.
  - exact H.
Qed.

(* extraction at the cursor consumes exactly the head token *)
Lemma extract_field_ok : forall (s : cstate) tag opt content s',
  extract_field _ t_detect t_extract s tag opt = XOk _ content s' ->
  cur s = (tag, content) :: cur s' /\ items s' = items s /\ verified s' = false.
Proof.
  intros s tag opt content s' H. unfold extract_field in H.
  destruct (negb (dup s) && mem tag (seen s) && negb opt); [discriminate|].
  destruct (t_detect (cur s) tag) eqn:Ed; [|discriminate].
  destruct (t_extract (cur s) tag) as [[c c']|] eqn:Ex; [|discriminate].
  inversion H; subst. cbn [cur items verified].
  unfold t_extract in Ex. destruct (cur s) as [|[t x] r]; [discriminate|].
  destruct (bytes_eqb t tag) eqn:E; [|discriminate].
  apply bytes_eqb_eq in E. inversion Ex; subst. auto.
Qed.

Lemma inv_after_item : forall (s s' : cstate) tag content ty letter,
  Inv s ->
  cur s = (tag, content) :: cur s' -> items s' = items s -> verified s' = false ->
  fparse ty letter content = true ->
  Inv (add_item _ s' {| i_ty := ty; i_letter := letter; i_tag := tag; i_content := content |}).
Proof.
  intros s s' tag content ty letter [H1 [H2 H3]] Hc Hi Hv Hp.
  unfold Inv, add_item. cbn [cur items verified]. split; [|split].
  - cbn [rev]. rewrite map_app. rewrite <- app_assoc. cbn [map app]. unfold tok_of at 2. cbn [i_tag i_content].
    rewrite <- H1, Hc, Hi. reflexivity.
  - intro Hver. rewrite Hv in Hver. discriminate.
  - constructor; [exact Hp|]. rewrite Hi. exact H3.
Qed.

Lemma call_inv : forall x (s : cstate) p s' d,
  call _ t_detect t_extract fparse x s = Some (COk _ p s', d) -> Inv s -> Inv s'.
Proof.
  intros x s p s' d H HI. destruct x; cbn [call] in H; try discriminate; inversion H as [[Hc Hd]]; clear H.
  - (* SReq *) unfold call_req in Hc.
    destruct (extract_field _ t_detect t_extract s tag false) as [content s1|e|] eqn:Ex; try discriminate.
    destruct (fparse ty None content) eqn:Ep; [|discriminate]. inversion Hc; subst.
    destruct (extract_field_ok _ _ _ _ _ Ex) as [A [B Cv]].
    eapply inv_after_item; eauto.
  - (* SOpt *) unfold call_opt in Hc.
    destruct (negb (t_detect (cur s) tag)); [inversion Hc; subst; exact HI|].
    destruct (extract_field _ t_detect t_extract s tag true) as [content s1|e|] eqn:Ex;
      try (inversion Hc; subst; exact HI).
    destruct (fparse ty None content) eqn:Ep; [|discriminate]. inversion Hc; subst.
    destruct (extract_field_ok _ _ _ _ _ Ex) as [A [B Cv]].
    eapply inv_after_item; eauto.
  - (* SReqV *) unfold call_reqv in Hc.
    destruct (first_letter _ t_detect (cur s) base (letters7)) as [l|]; [|discriminate].
    destruct (extract_field _ t_detect t_extract s (base ++ l) false) as [content s1|e|] eqn:Ex; try discriminate.
    destruct (fparse fam (Some l) content) eqn:Ep; [|discriminate]. inversion Hc; subst.
    destruct (extract_field_ok _ _ _ _ _ Ex) as [A [B Cv]].
    eapply inv_after_item; eauto.
  - (* SOptV *) unfold call_optv in Hc.
    destruct (first_letter _ t_detect (cur s) base (letters7)) as [l|]; [|inversion Hc; subst; exact HI].
    destruct (extract_field _ t_detect t_extract s (base ++ l) true) as [content s1|e|] eqn:Ex;
      try (inversion Hc; subst; exact HI).
    destruct (fparse fam (Some l) content) eqn:Ep; [|discriminate]. inversion Hc; subst.
    destruct (extract_field_ok _ _ _ _ _ Ex) as [A [B Cv]].
    eapply inv_after_item; eauto.
Qed.

(* what a rejection says is true of the text: the named culprit is the field at the cursor *)
Definition reject_ok (e : perr) : Prop :=
  match e with
  | EBadField t c => exists pre post ty l, toks0 = pre ++ (t, c) :: post /\ fparse ty l c = false
  | EMissing t => exists pre post, toks0 = pre ++ post /\ t_detect post t = false
  | EUnparsed => exists pre post, toks0 = pre ++ post /\ post <> []
  | _ => True
  end.

Definition flow_inv (f : flow (list tok)) : Prop :=
  match f with
  | FNext _ s | FBreak _ s | FReturnOk _ s => Inv s
  | FReject _ e => reject_ok e
  | _ => True
  end.

Lemma first_letter_none : forall (c : list tok) base ls,
  first_letter _ t_detect c base ls = None -> t_detect c base = false.
Proof.
  intros c base ls. induction ls as [|l r IH]; cbn [first_letter]; intro H.
  - destruct (t_detect c base); [discriminate|reflexivity].
  - destruct (t_detect c (base ++ l)); [discriminate|apply IH; exact H].
Qed.

Lemma extract_field_notfound : forall (s : cstate) tag opt,
  extract_field _ t_detect t_extract s tag opt = XNotFound _ -> t_detect (cur s) tag = false.
Proof.
  intros s tag opt H. unfold extract_field in H.
  destruct (negb (dup s) && mem tag (seen s) && negb opt); [discriminate|].
  destruct (t_detect (cur s) tag) eqn:Ed; [|reflexivity].
  destruct (t_extract (cur s) tag) as [[c c']|] eqn:Ex; [discriminate|].
  unfold t_detect in Ed. unfold t_extract in Ex. destruct (cur s) as [|[t x] r]; [discriminate|].
  rewrite Ed in Ex. discriminate.
Qed.

Lemma extract_field_dup : forall (s : cstate) tag opt e,
  extract_field _ t_detect t_extract s tag opt = XErr _ e -> e = EDuplicate tag.
Proof.
  intros s tag opt e H. unfold extract_field in H.
  destruct (negb (dup s) && mem tag (seen s) && negb opt); [inversion H; reflexivity|].
  destruct (t_detect (cur s) tag); [|discriminate].
  destruct (t_extract (cur s) tag) as [[c c']|]; discriminate.
Qed.

Lemma call_err : forall x (s : cstate) e s' d,
  call _ t_detect t_extract fparse x s = Some (CErr _ e s', d) -> Inv s -> reject_ok e.
Proof.
  intros x s e s' d H [H1 _]. destruct x; cbn [call] in H; try discriminate; inversion H as [[Hc Hd]]; clear H.
  - unfold call_req in Hc.
    destruct (extract_field _ t_detect t_extract s tag false) as [content s1|e1|] eqn:Ex.
    + destruct (fparse ty None content) eqn:Ep; [discriminate|]. inversion Hc; subst.
      destruct (extract_field_ok _ _ _ _ _ Ex) as [A _].
      exists (map tok_of (rev (items s))), (cur s'), ty, None. rewrite <- A. split; [symmetry; exact H1|exact Ep].
    + inversion Hc; subst. rewrite (extract_field_dup _ _ _ _ Ex). exact I.
    + inversion Hc; subst. exists (map tok_of (rev (items s'))), (cur s'). split; [symmetry; exact H1|].
      eapply extract_field_notfound; exact Ex.
  - unfold call_opt in Hc.
    destruct (negb (t_detect (cur s) tag)); [discriminate|].
    destruct (extract_field _ t_detect t_extract s tag true) as [content s1|e1|] eqn:Ex; try discriminate.
    destruct (fparse ty None content) eqn:Ep; [discriminate|]. inversion Hc; subst.
    destruct (extract_field_ok _ _ _ _ _ Ex) as [A _].
    exists (map tok_of (rev (items s))), (cur s'), ty, None. rewrite <- A. split; [symmetry; exact H1|exact Ep].
  - unfold call_reqv in Hc.
    destruct (first_letter _ t_detect (cur s) base letters7) as [l|] eqn:El.
    + destruct (extract_field _ t_detect t_extract s (base ++ l) false) as [content s1|e1|] eqn:Ex.
      * destruct (fparse fam (Some l) content) eqn:Ep; [discriminate|]. inversion Hc; subst.
        destruct (extract_field_ok _ _ _ _ _ Ex) as [A _].
        exists (map tok_of (rev (items s))), (cur s'), fam, (Some l). rewrite <- A. split; [symmetry; exact H1|exact Ep].
      * inversion Hc; subst. rewrite (extract_field_dup _ _ _ _ Ex). exact I.
      * inversion Hc; subst. exists (map tok_of (rev (items s'))), (cur s'). split; [symmetry; exact H1|].
        eapply extract_field_notfound; exact Ex.
    + inversion Hc; subst. exists (map tok_of (rev (items s'))), (cur s'). split; [symmetry; exact H1|].
      eapply first_letter_none; exact El.
  - unfold call_optv in Hc.
    destruct (first_letter _ t_detect (cur s) base letters7) as [l|] eqn:El; [|discriminate].
    destruct (extract_field _ t_detect t_extract s (base ++ l) true) as [content s1|e1|] eqn:Ex; try discriminate.
    destruct (fparse fam (Some l) content) eqn:Ep; [discriminate|]. inversion Hc; subst.
    destruct (extract_field_ok _ _ _ _ _ Ex) as [A _].
    exists (map tok_of (rev (items s))), (cur s'), fam, (Some l). rewrite <- A. split; [symmetry; exact H1|exact Ep].
Qed.

Lemma dropfree_pick_arm : forall l arms d,
  forallb (fun a => match a with (_, b) => forallb dropfree_stmt b end) arms = true ->
  dropfree d = true -> dropfree (pick_arm l arms d) = true.
Proof.
  intros l arms d. induction arms as [|[ls b] r IH]; cbn [pick_arm forallb]; intros Ha Hd.
  - exact Hd.
  - apply andb_true_iff in Ha. destruct Ha as [Hb Hr].
    destruct (mem l ls); [exact Hb|apply IH; assumption].
Qed.

(* the main invariant: a drop-free program never loses a token *)
Lemma exec_inv : forall fuel ss (s : cstate),
  dropfree ss = true -> Inv s -> flow_inv (exec' fuel ss s).
Proof.
  induction fuel as [|f IH]; intros ss s Hdf HI; [exact I|].
  unfold texec in *. cbn [exec]. destruct ss as [|x r]; [exact HI|].
  unfold dropfree in Hdf. cbn [forallb] in Hdf. apply andb_true_iff in Hdf. destruct Hdf as [Hx Hr].
  fold (dropfree r) in Hr.
  destruct x.
  - (* SReq *) destruct (call _ _ _ _ (SReq ty tag d) s) as [[[p s'|e s'] d']|] eqn:Ec; try exact I.
    + apply IH; [exact Hr|]. apply inv_bind. eapply call_inv; eauto.
    + cbn [flow_inv]. eapply call_err; eauto.
  - destruct (call _ _ _ _ (SOpt ty tag d) s) as [[[p s'|e s'] d']|] eqn:Ec; try exact I.
    + apply IH; [exact Hr|]. apply inv_bind. eapply call_inv; eauto.
    + cbn [flow_inv]. eapply call_err; eauto.
  - destruct (call _ _ _ _ (SReqV fam base d) s) as [[[p s'|e s'] d']|] eqn:Ec; try exact I.
    + apply IH; [exact Hr|]. apply inv_bind. eapply call_inv; eauto.
    + cbn [flow_inv]. eapply call_err; eauto.
  - destruct (call _ _ _ _ (SOptV fam base d) s) as [[[p s'|e s'] d']|] eqn:Ec; try exact I.
    + apply IH; [exact Hr|]. apply inv_bind. eapply call_inv; eauto.
    + cbn [flow_inv]. eapply call_err; eauto.
  - apply IH; [exact Hr|apply inv_set_dup; exact HI].
  - apply IH; [exact Hr|apply inv_set_env; exact HI].
  - apply IH; [exact Hr|apply inv_set_env; exact HI].
  - apply IH; [exact Hr|apply inv_set_env; exact HI].
  - (* SWhile *) cbn [dropfree_stmt] in Hx. fold (dropfree body) in Hx.
    destruct (eval _ _ _ c s); [|apply IH; assumption].
    pose proof (IH body s Hx HI) as Hb.
    destruct (exec _ _ _ _ _ f body s) as [s'|s'|s'|e| |] eqn:Eb; cbn [flow_inv] in Hb |- *; try exact I; try exact Hb.
    + apply IH; [|exact Hb]. unfold dropfree. cbn [forallb dropfree_stmt]. fold (dropfree body). fold (dropfree r).
      rewrite Hx, Hr. reflexivity.
    + apply IH; assumption.
  - (* SIf *) cbn [dropfree_stmt] in Hx. apply andb_true_iff in Hx. destruct Hx as [Hth Hel].
    fold (dropfree th) in Hth. fold (dropfree el) in Hel.
    assert (Hsel : dropfree (if eval _ t_detect t_complete c s then th else el) = true)
      by (destruct (eval _ _ _ c s); assumption).
    pose proof (IH _ s Hsel HI) as Hb.
    destruct (exec _ _ _ _ _ f (if eval _ t_detect t_complete c s then th else el) s) as [s'|s'|s'|e| |];
      cbn [flow_inv] in Hb |- *; try exact I; try exact Hb.
    apply IH; assumption.
  - exact HI.
  - exact I.
  - (* SPeek *) cbn [dropfree_stmt] in Hx. apply andb_true_iff in Hx. destruct Hx as [Ha Hd].
    fold (dropfree default) in Hd.
    destruct (first_letter _ _ (cur s) base _) as [l|]; [|apply IH; assumption].
    pose proof (IH _ s (dropfree_pick_arm l arms default Ha Hd) HI) as Hb.
    destruct (exec _ _ _ _ _ f (pick_arm l arms default) s) as [s'|s'|s'|e| |];
      cbn [flow_inv] in Hb |- *; try exact I; try exact Hb.
    apply IH; assumption.
  - discriminate.
  - discriminate.
  - (* SVerifyComplete *) destruct (t_complete (cur s)) eqn:Ec.
    2:{ cbn [flow_inv reject_ok]. destruct HI as [H1 _].
        exists (map tok_of (rev (items s))), (cur s). split; [symmetry; exact H1|].
        unfold t_complete in Ec. destruct (cur s); [discriminate|discriminate]. }
    apply IH; [exact Hr|]. destruct HI as [H1 [H2 H3]]. unfold Inv, set_verified. cbn [cur items verified].
    split; [exact H1|]. split; [|exact H3]. intros _.
    unfold t_complete in Ec. destruct (cur s); [reflexivity|discriminate].
  - exact HI.
Qed.

(* an Ok return is always preceded by a successful completeness check *)
Lemma ret_guarded_pick_arm : forall l arms d,
  forallb (fun x => match x with (_, body) => ret_guarded false body end) arms = true ->
  ret_guarded false d = true -> ret_guarded false (pick_arm l arms d) = true.
Proof.
  intros l arms d. induction arms as [|[ls b] r IH]; cbn [pick_arm forallb]; intros Ha Hd.
  - exact Hd.
  - apply andb_true_iff in Ha. destruct Ha as [Hb Hr].
    destruct (mem l ls); [exact Hb|apply IH; assumption].
Qed.

Lemma ret_guarded_tail : forall x r p, ret_guarded p (x :: r) = true ->
  x <> SReturnOk -> x <> SVerifyComplete -> ret_guarded_stmt x = true /\ ret_guarded false r = true.
Proof.
  intros x r p H H1 H2. destruct x; cbn [ret_guarded] in H; try (apply andb_true_iff in H; exact H); try contradiction.
  all: try (split; [reflexivity|exact H]).
Qed.

Lemma exec_ret_verified : forall fuel ss (s s' : cstate) p,
  ret_guarded p ss = true -> (p = true -> verified s = true) ->
  exec' fuel ss s = FReturnOk _ s' -> verified s' = true.
Proof.
  induction fuel as [|f IH]; intros ss s s' p Hg Hp He; [discriminate|].
  unfold texec in *. cbn [exec] in He. destruct ss as [|x r]; [discriminate|].
  assert (Hfalse : false = true -> verified s = true) by discriminate.
  destruct x.
  - destruct (ret_guarded_tail _ _ _ Hg) as [_ Hr]; try discriminate.
    destruct (call _ _ _ _ (SReq ty tag d) s) as [[[q s1|e s1] d']|]; try discriminate.
    eapply IH; [exact Hr| |exact He]. discriminate.
  - destruct (ret_guarded_tail _ _ _ Hg) as [_ Hr]; try discriminate.
    destruct (call _ _ _ _ (SOpt ty tag d) s) as [[[q s1|e s1] d']|]; try discriminate.
    eapply IH; [exact Hr| |exact He]. discriminate.
  - destruct (ret_guarded_tail _ _ _ Hg) as [_ Hr]; try discriminate.
    destruct (call _ _ _ _ (SReqV fam base d) s) as [[[q s1|e s1] d']|]; try discriminate.
    eapply IH; [exact Hr| |exact He]. discriminate.
  - destruct (ret_guarded_tail _ _ _ Hg) as [_ Hr]; try discriminate.
    destruct (call _ _ _ _ (SOptV fam base d) s) as [[[q s1|e s1] d']|]; try discriminate.
    eapply IH; [exact Hr| |exact He]. discriminate.
  - destruct (ret_guarded_tail _ _ _ Hg) as [_ Hr]; try discriminate.
    eapply IH; [exact Hr| |exact He]. discriminate.
  - destruct (ret_guarded_tail _ _ _ Hg) as [_ Hr]; try discriminate.
    eapply IH; [exact Hr| |exact He]. discriminate.
  - destruct (ret_guarded_tail _ _ _ Hg) as [_ Hr]; try discriminate.
    eapply IH; [exact Hr| |exact He]. discriminate.
  - destruct (ret_guarded_tail _ _ _ Hg) as [_ Hr]; try discriminate.
    eapply IH; [exact Hr| |exact He]. discriminate.
  - (* SWhile *) destruct (ret_guarded_tail _ _ _ Hg) as [Hx Hr]; try discriminate.
    rewrite ret_guarded_stmt_while in Hx.
    destruct (eval _ _ _ c s).
    + destruct (exec _ _ _ _ _ f body s) as [s1|s1|s1|e| |] eqn:Eb; try discriminate.
      * eapply (IH (SWhile c body :: r) s1 s' false); [|discriminate|exact He].
        cbn [ret_guarded]. rewrite ret_guarded_stmt_while, Hx, Hr. reflexivity.
      * eapply IH; [exact Hr|discriminate|exact He].
      * inversion He; subst. eapply IH; [exact Hx|discriminate|exact Eb].
    + eapply IH; [exact Hr|discriminate|exact He].
  - (* SIf *) destruct (ret_guarded_tail _ _ _ Hg) as [Hx Hr]; try discriminate.
    rewrite ret_guarded_stmt_if in Hx. apply andb_true_iff in Hx. destruct Hx as [Hth Hel].
    assert (Hblk : ret_guarded false (if eval _ t_detect t_complete c s then th else el) = true)
      by (destruct (eval _ _ _ c s); assumption).
    destruct (exec _ _ _ _ _ f (if eval _ t_detect t_complete c s then th else el) s) as [s1|s1|s1|e| |] eqn:Eb; try discriminate.
    + eapply IH; [exact Hr|discriminate|exact He].
    + inversion He; subst. eapply IH; [exact Hblk|discriminate|exact Eb].
  - discriminate.
  - discriminate.
  - (* SPeek *) destruct (ret_guarded_tail _ _ _ Hg) as [Hx Hr]; try discriminate.
    rewrite ret_guarded_stmt_peek in Hx. apply andb_true_iff in Hx. destruct Hx as [Ha Hd].
    destruct (first_letter _ _ (cur s) base _) as [l|].
    + destruct (exec _ _ _ _ _ f (pick_arm l arms default) s) as [s1|s1|s1|e| |] eqn:Eb; try discriminate.
      * eapply IH; [exact Hr|discriminate|exact He].
      * inversion He; subst. eapply IH; [apply (ret_guarded_pick_arm l arms default Ha Hd)|discriminate|exact Eb].
    + eapply IH; [exact Hr|discriminate|exact He].
  - (* SWhileLetOk *) destruct (ret_guarded_tail _ _ _ Hg) as [Hx Hr]; try discriminate.
    rewrite ret_guarded_stmt_wlo in Hx.
    destruct (call _ _ _ _ x s) as [[[q s1|e s1] d']|]; try discriminate.
    + destruct (exec _ _ _ _ _ f body (bind _ s1 d' q)) as [s2|s2|s2|e| |] eqn:Eb; try discriminate.
      * eapply (IH (SWhileLetOk x body :: r) s2 s' false); [|discriminate|exact He].
        cbn [ret_guarded]. rewrite ret_guarded_stmt_wlo, Hx, Hr. reflexivity.
      * eapply IH; [exact Hr|discriminate|exact He].
      * inversion He; subst. eapply IH; [exact Hx|discriminate|exact Eb].
    + eapply IH; [exact Hr|discriminate|exact He].
  - (* STryElse *) destruct (ret_guarded_tail _ _ _ Hg) as [Hx Hr]; try discriminate.
    rewrite ret_guarded_stmt_try in Hx. apply andb_true_iff in Hx. destruct Hx as [Hth Hel].
    destruct (call _ _ _ _ x s) as [[[q s1|e s1] d']|]; try discriminate.
    + assert (Hblk : ret_guarded false (if some_only && negb q then el else th) = true)
        by (destruct (some_only && negb q); assumption).
      destruct (exec _ _ _ _ _ f (if some_only && negb q then el else th) (bind _ s1 d' q)) as [s2|s2|s2|e| |] eqn:Eb; try discriminate.
      * eapply IH; [exact Hr|discriminate|exact He].
      * inversion He; subst. eapply IH; [exact Hblk|discriminate|exact Eb].
    + destruct (exec _ _ _ _ _ f el s1) as [s2|s2|s2|e'| |] eqn:Eb; try discriminate.
      * eapply IH; [exact Hr|discriminate|exact He].
      * inversion He; subst. eapply IH; [exact Hel|discriminate|exact Eb].
  - (* SVerifyComplete *) cbn [ret_guarded] in Hg.
    destruct (t_complete (cur s)); [|discriminate].
    eapply (IH r _ s' true); [exact Hg| |exact He]. intros _. reflexivity.
  - (* SReturnOk *) cbn [ret_guarded] in Hg. apply andb_true_iff in Hg. destruct Hg as [Hpt _].
    inversion He as [Hs]. rewrite <- Hs. apply Hp. exact Hpt.
Qed.

End Facts.

(* ---- C01, token level *)

Theorem accept_exact : forall fparse L fuel toks its,
  wf_layout L = true ->
  trun fparse fuel L toks = Accept its ->
  map tok_of its = toks /\ Forall (item_ok fparse) its.
Proof.
  intros fparse L fuel toks its Hwf Hrun.
  unfold wf_layout in Hwf. apply andb_true_iff in Hwf. destruct Hwf as [Hdf Hrg].
  unfold trun, run in Hrun.
  destruct (exec _ _ _ _ _ fuel L (init _ toks)) as [s|s|s|e| |] eqn:Ee; try discriminate.
  inversion Hrun; subst. clear Hrun.
  assert (HI0 : Inv fparse toks (init _ toks)).
  { unfold Inv, init. cbn. split; [reflexivity|]. split; [discriminate|constructor]. }
  pose proof (exec_inv fparse toks fuel L _ Hdf HI0) as HI. unfold texec in HI. rewrite Ee in HI.
  cbn [flow_inv] in HI. destruct HI as [H1 [H2 H3]].
  assert (Hv : verified s = true).
  { eapply (exec_ret_verified fparse fuel L (init _ toks) s false); [exact Hrg|discriminate|exact Ee]. }
  rewrite (H2 Hv), app_nil_r in H1. split; [exact H1|].
  apply Forall_rev. exact H3.
Qed.

(* ---- C09, token level: what a rejection names is the culprit *)
Theorem reject_sound : forall fparse L fuel toks e,
  dropfree L = true ->
  trun fparse fuel L toks = Reject e ->
  reject_ok fparse toks e.
Proof.
  intros fparse L fuel toks e Hdf Hrun. unfold trun, run in Hrun.
  assert (HI0 : Inv fparse toks (init _ toks)).
  { unfold Inv, init. cbn. split; [reflexivity|]. split; [discriminate|constructor]. }
  pose proof (exec_inv fparse toks fuel L _ Hdf HI0) as HI. unfold texec in HI.
  destruct (exec _ _ _ _ _ fuel L (init _ toks)) as [s|s|s|e'| |]; try discriminate.
  inversion Hrun; subst. exact HI.
Qed.

(* a mandatory field that is not the next field of the text is reported missing, by name *)
Theorem req_missing : forall fparse fuel ty tag d r (s : st (list tok)),
  t_detect (cur s) tag = false -> (dup s = true \/ mem tag (seen s) = false) ->
  texec fparse (S fuel) (SReq ty tag d :: r) s = FReject _ (EMissing tag).
Proof.
  intros fparse fuel ty tag d r s Hd Hs. unfold texec. cbn [exec call]. unfold call_req, extract_field.
  rewrite Hd.
  assert (Hn : negb (dup s) && mem tag (seen s) && negb false = false).
  { destruct Hs as [Hs|Hs]; rewrite Hs; cbn; [reflexivity|]. rewrite andb_false_r. reflexivity. }
  rewrite Hn. reflexivity.
Qed.

(* a field whose content its parser rejects is reported with its tag and content *)
Theorem req_badfield : forall fparse fuel ty tag d r (s : st (list tok)) content rest,
  cur s = (tag, content) :: rest -> (dup s = true \/ mem tag (seen s) = false) ->
  fparse ty None content = false ->
  texec fparse (S fuel) (SReq ty tag d :: r) s = FReject _ (EBadField tag content).
Proof.
  intros fparse fuel ty tag d r s content rest Hc Hs Hp. unfold texec. cbn [exec call]. unfold call_req, extract_field.
  assert (Hn : negb (dup s) && mem tag (seen s) && negb false = false).
  { destruct Hs as [Hs|Hs]; rewrite Hs; cbn; [reflexivity|]. rewrite andb_false_r. reflexivity. }
  rewrite Hn. rewrite Hc. unfold t_detect, t_extract. rewrite bytes_eqb_refl. rewrite Hp. reflexivity.
Qed.

Theorem opt_badfield : forall fparse fuel ty tag d r (s : st (list tok)) content rest,
  cur s = (tag, content) :: rest ->
  fparse ty None content = false ->
  texec fparse (S fuel) (SOpt ty tag d :: r) s = FReject _ (EBadField tag content).
Proof.
  intros fparse fuel ty tag d r s content rest Hc Hp. unfold texec. cbn [exec call]. unfold call_opt, extract_field.
  rewrite Hc. unfold t_detect, t_extract. rewrite bytes_eqb_refl. cbn [negb].
  rewrite andb_false_r. rewrite Hp. reflexivity.
Qed.
