(* Engine/AbsInstance.v — the abstract interpreter on the regenerated layouts and the independent specification *)
From Coq Require Import Lia Bool Strings.String.
From SwiftMT Require Import Base.Bytes Engine.Layout Engine.Tokens Engine.Regex Engine.Abs Engine.Defs Family.Model Family.Defs.
From SwiftMT Require Import gen.Families gen.Specs.
Local Open Scope string_scope.
Local Open Scope list_scope.

(* the (type, letter, tag) triples a layout applies *)
Fixpoint uses_stmt (x : stmt) : list (bytes * option bytes * bytes) :=
  match x with
  | SReq ty tag _ | SOpt ty tag _ => [(ty, None, tag)]
  | SReqV fam base _ | SOptV fam base _ => (fam, Some [], base) :: map (fun l => (fam, Some l, base ++ l)) letters7
  | SWhile _ body => flat_map uses_stmt body
  | SIf _ th el => flat_map uses_stmt th ++ flat_map uses_stmt el
  | SPeek _ _ arms d =>
      (fix ga (a : list (list bytes * list stmt)) := match a with [] => [] | (_, b) :: r => flat_map uses_stmt b ++ ga r end) arms
      ++ flat_map uses_stmt d
  | SWhileLetOk c body => uses_stmt c ++ flat_map uses_stmt body
  | STryElse c _ th el => uses_stmt c ++ flat_map uses_stmt th ++ flat_map uses_stmt el
  | _ => []
  end.
Definition uses (L : list stmt) : list (bytes * option bytes * bytes) := flat_map uses_stmt L.

(* verdicts on well-formed contents: a plain field parser accepts the content of its own tag; a family accepts
   exactly the letters it has an arm for (C14: letter_decides / foreign_letter_rejected) *)
Definition family_of (n : bytes) : option family := family_named n.
Definition fp (ty : bytes) (l : option bytes) (tag : bytes) : option bool :=
  match l with
  | None => Some true
  | Some l =>
      match family_of ty with
      | Some f =>
          if f_has_pwv f then
            Some (match find_arm (match l with [] => None | _ => Some l end) (f_arms f) with Some _ => true | None => false end)
          else None
      | None => None
      end
  end.

(* a specification is a finite union of expressions (gen/Specs.v); the analysis runs once per member *)
Definition spec_lang (alts : list re) (w : list bytes) : Prop := exists R, In R alts /\ matches R w.

Definition check_alts (T : bytes) (alts : list re) : bool :=
  match lookup T all_layouts with
  | Some L => forallb (fun R => includes fp (uses L) 400 L R) alts
  | None => false
  end.
Definition check_type (T : bytes) : bool :=
  match lookup T specs with Some alts => check_alts T alts | None => false end.

(* where the analysis gives up: the first member that is not proved, with the diagnostic *)
Fixpoint first_failure (L : list stmt) (lax : bool) (alts : list re) : res aout :=
  match alts with
  | [] => Ok out_bot
  | R :: r =>
      match asexec fp (uses L) lax 400 L (start R) with
      | Ok o => if (if lax then is_bot (o_next o) && is_bot (o_break o) && negb (o_ret o) else is_bot (o_next o) && is_bot (o_break o))
                then first_failure L lax r else Ok o
      | Fail c x => Fail c x
      end
  end.
Definition why_type (T : bytes) : res aout :=
  match lookup T all_layouts, lookup T specs with
  | Some L, Some alts => first_failure L false alts
  | _, _ => Fail 0 []
  end.

(* ---- the result.  The types whose layout is known NOT to accept the whole specification (each is a listed known
   finding of C03 with its witness): the analysis stops exactly there (why_type gives the place). *)
Definition inclusion_open : list bytes := map bs ["MT101"; "MT104"; "MT107"; "MT196"; "MT204"; "MT940"].

Definition inclusion_ok : bool :=
  forallb (fun p => mem (fst p) inclusion_open || check_type (fst p)) specs
  && Nat.eqb (List.length specs) 30.

(* the open types against the restricted specification (the specification minus the listed deviations) *)
Definition check_restricted (T : bytes) : bool :=
  match lookup T specs_restricted with Some alts => check_alts T alts | None => false end.
Definition why_restricted (T : bytes) : res aout :=
  match lookup T all_layouts, lookup T specs_restricted with
  | Some L, Some alts => first_failure L false alts
  | _, _ => Fail 0 []
  end.
Definition restricted_ok : bool := forallb (fun p => check_restricted (fst p)) specs_restricted.

(* ---- C09: every word of the specification with one mandatory element missing is rejected.
   spec_deletions lists, per type, (what is missing, expression); deletion_open would list the pairs that are not
   proved: none at present (MT935 B.37H needed the exit states of a loop to be kept apart, see Engine/Abs.v add_exit) *)
Definition deletion_open : list (bytes * bytes) := [].
Definition pair_mem (p : bytes * bytes) (l : list (bytes * bytes)) : bool :=
  existsb (fun q => bytes_eqb (fst p) (fst q) && bytes_eqb (snd p) (snd q)) l.
Definition check_deletion (T : bytes) (D : re) : bool :=
  match lookup T all_layouts with
  | Some L => excludes fp (uses L) 400 L D
  | None => false
  end.
Definition why_deletion (T : bytes) (D : re) : res aout :=
  match lookup T all_layouts with
  | Some L => asexec fp (uses L) true 400 L (start D)
  | None => Fail 0 []
  end.
Definition deletion_failures : list (bytes * bytes) :=
  flat_map (fun p => map (fun d => (fst p, fst d))
                         (filter (fun d => negb (pair_mem (fst p, fst d) deletion_open) && negb (check_deletion (fst p) (snd d))) (snd p)))
           spec_deletions.
Definition deletions_ok : bool :=
  forallb (fun p => forallb (fun d => pair_mem (fst p, fst d) deletion_open || check_deletion (fst p) (snd d)) (snd p)) spec_deletions.
