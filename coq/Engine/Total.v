(* Engine/Total.v — the cursor interpreter terminates on every token list for every layout whose
   loops make progress (each loop body contains, at its top level, a mandatory consuming call).
   Three facts about [exec] on the token cursor:
     - no statement makes the remaining input longer, a mandatory call makes it strictly shorter;
     - fuel monotonicity: an answer other than "out of fuel" is the same with more fuel;
     - for loops that make progress there is always enough fuel. *)

From Coq Require Import Lia Bool.
From SwiftMT Require Import Base.Bytes Engine.Layout.

(* every loop body has a mandatory consuming call at its top level *)
Definition is_req (x : stmt) : bool := match x with SReq _ _ _ | SReqV _ _ _ => true | _ => false end.
Definition has_req (ss : list stmt) : bool := existsb is_req ss.

Section T.
(* any cursor whose extract operation strictly shrinks a size: the token list (length), the byte text (length) *)
Variable C : Type.
Variable detect : C -> bytes -> bool.
Variable extract : C -> bytes -> option (bytes * C).
Variable complete : C -> bool.
Variable size : C -> nat.
Hypothesis extract_shrinks : forall c tag x c', extract c tag = Some (x, c') -> size c' < size c.
Variable fparse : bytes -> option bytes -> bytes -> bool.

Notation tst := (st C).
Notation exec' := (exec C detect extract complete fparse).
Notation call' := (call C detect extract fparse).
Notation eval' := (eval C detect complete).

Definition sz (s : tst) : nat := size (cur s).

Fixpoint loops_ok_stmt (x : stmt) : bool :=
  match x with
  | SWhile _ body => has_req body && forallb loops_ok_stmt body
  | SIf _ th el => forallb loops_ok_stmt th && forallb loops_ok_stmt el
  | SPeek _ _ arms d =>
      (fix ga (a : list (list bytes * list stmt)) := match a with [] => true | (_, b) :: r => forallb loops_ok_stmt b && ga r end) arms
      && forallb loops_ok_stmt d
  | SWhileLetOk c body => is_req c && forallb loops_ok_stmt body
  | STryElse c _ th el => forallb loops_ok_stmt th && forallb loops_ok_stmt el
  | _ => true
  end.
Definition loops_ok (ss : list stmt) : bool := forallb loops_ok_stmt ss.

(* ---- sizes *)
Lemma extract_size : forall (s : tst) tag opt content s',
  extract_field C detect extract s tag opt = XOk C content s' -> sz s' < sz s.
Proof.
  intros s tag opt content s' H. unfold extract_field in H.
  destruct (negb (dup s) && mem tag (seen s) && negb opt); [discriminate|].
  destruct (detect (cur s) tag); [|discriminate].
  destruct (extract (cur s) tag) as [[c c']|] eqn:E; [|discriminate].
  inversion H; subst. unfold sz. cbn [cur]. exact (extract_shrinks _ _ _ _ E).
Qed.

Lemma sz_add_item : forall (s : tst) it, sz (add_item C s it) = sz s.
Proof. reflexivity. Qed.
Lemma sz_bind : forall (s : tst) d p, sz (bind C s d p) = sz s.
Proof. intros s d p. destruct d; cbn [bind]; try destruct p; reflexivity. Qed.

Lemma call_size : forall x (s : tst) r d, call' x s = Some (r, d) ->
  match r with
  | COk _ p s' => sz s' <= sz s /\ (is_req x = true -> sz s' < sz s)
  | CErr _ _ s' => sz s' <= sz s
  end.
Proof.
  intros x s r d H. destruct x; cbn [call] in H; try discriminate; inversion H; subst; clear H; cbn [is_req].
  - unfold call_req. destruct (extract_field _ _ _ s tag false) as [c s'|e|] eqn:E; try lia.
    pose proof (extract_size _ _ _ _ _ E). destruct (fparse ty None c); [rewrite sz_add_item; split; [lia|intros _; lia] | lia].
  - unfold call_opt. destruct (negb (detect (cur s) tag)); [split; [lia|discriminate]|].
    destruct (extract_field _ _ _ s tag true) as [c s'|e|] eqn:E; try (split; [lia|discriminate]).
    pose proof (extract_size _ _ _ _ _ E). destruct (fparse ty None c); [rewrite sz_add_item; split; [lia|discriminate] | lia].
  - unfold call_reqv. destruct (first_letter _ _ (cur s) base letters7) as [l|]; [|lia].
    destruct (extract_field _ _ _ s (base ++ l) false) as [c s'|e|] eqn:E; try lia.
    pose proof (extract_size _ _ _ _ _ E). destruct (fparse fam (Some l) c); [rewrite sz_add_item; split; [lia|intros _; lia] | lia].
  - unfold call_optv. destruct (first_letter _ _ (cur s) base letters7) as [l|]; [|split; [lia|discriminate]].
    destruct (extract_field _ _ _ s (base ++ l) true) as [c s'|e|] eqn:E; try (split; [lia|discriminate]).
    pose proof (extract_size _ _ _ _ _ E). destruct (fparse fam (Some l) c); [rewrite sz_add_item; split; [lia|discriminate] | lia].
Qed.

Definition flow_le (n : nat) (fl : flow C) : Prop :=
  match fl with
  | FNext _ s' | FBreak _ s' | FReturnOk _ s' => sz s' <= n
  | _ => True
  end.

Lemma exec_size : forall f ss (s : tst), flow_le (sz s) (exec' f ss s).
Proof.
  induction f as [|f IH]; intros ss s; [exact I|].
  cbn [exec]. destruct ss as [|x r]; [cbn; lia|].
  assert (T : forall fl n m, flow_le n fl -> n <= m -> flow_le m fl).
  { intros fl n m H L. destruct fl; cbn in *; try lia; exact I. }
  destruct x.
  - destruct (call' (SReq ty tag d) s) as [[[p s'|e s'] d']|] eqn:Ec; try exact I.
    pose proof (call_size _ _ _ _ Ec) as [L _]. eapply T; [apply IH|]. rewrite sz_bind. exact L.
  - destruct (call' (SOpt ty tag d) s) as [[[p s'|e s'] d']|] eqn:Ec; try exact I.
    pose proof (call_size _ _ _ _ Ec) as [L _]. eapply T; [apply IH|]. rewrite sz_bind. exact L.
  - destruct (call' (SReqV fam base d) s) as [[[p s'|e s'] d']|] eqn:Ec; try exact I.
    pose proof (call_size _ _ _ _ Ec) as [L _]. eapply T; [apply IH|]. rewrite sz_bind. exact L.
  - destruct (call' (SOptV fam base d) s) as [[[p s'|e s'] d']|] eqn:Ec; try exact I.
    pose proof (call_size _ _ _ _ Ec) as [L _]. eapply T; [apply IH|]. rewrite sz_bind. exact L.
  - exact (IH r (set_dup _ s b)).
  - exact (IH r (set_env _ s v (S (get _ s v)))).
  - exact (IH r (set_env _ s v 1)).
  - exact (IH r (set_env _ s v 0)).
  - destruct (eval' c s); [|apply IH].
    pose proof (IH body s) as Hb. destruct (exec _ _ _ _ _ f body s) as [s1|s1|s1|e| |] eqn:Eb; cbn in Hb; try exact I.
    + eapply T; [apply IH | exact Hb].
    + eapply T; [apply IH | exact Hb].
    + cbn. exact Hb.
  - pose proof (IH (if eval' c s then th else el) s) as Hb.
    destruct (exec _ _ _ _ _ f (if eval' c s then th else el) s) as [s1|s1|s1|e| |] eqn:Eb; cbn in Hb; try exact I.
    + eapply T; [apply IH | exact Hb].
    + cbn. exact Hb.
    + cbn. exact Hb.
  - cbn. lia.
  - exact I.
  - destruct (first_letter _ _ (cur s) base (if all_letters then letters26 else letters7)) as [l|]; [|apply IH].
    pose proof (IH (pick_arm l arms default) s) as Hb.
    destruct (exec _ _ _ _ _ f (pick_arm l arms default) s) as [s1|s1|s1|e| |] eqn:Eb; cbn in Hb; try exact I.
    + eapply T; [apply IH | exact Hb].
    + cbn. exact Hb.
    + cbn. exact Hb.
  - destruct (call' x s) as [[[p s'|e s'] d']|] eqn:Ec; try exact I.
    + pose proof (call_size _ _ _ _ Ec) as [L _].
      pose proof (IH body (bind _ s' d' p)) as Hb. rewrite sz_bind in Hb.
      destruct (exec _ _ _ _ _ f body (bind _ s' d' p)) as [s1|s1|s1|e| |] eqn:Eb; cbn in Hb; try exact I.
      * eapply T; [apply IH | lia].
      * eapply T; [apply IH | lia].
      * cbn. lia.
    + pose proof (call_size _ _ _ _ Ec) as L. eapply T; [apply IH | exact L].
  - destruct (call' x s) as [[[p s'|e s'] d']|] eqn:Ec; try exact I.
    + pose proof (call_size _ _ _ _ Ec) as [L _].
      pose proof (IH (if some_only && negb p then el else th) (bind _ s' d' p)) as Hb. rewrite sz_bind in Hb.
      destruct (exec _ _ _ _ _ f (if some_only && negb p then el else th) (bind _ s' d' p)) as [s1|s1|s1|e| |] eqn:Eb; cbn in Hb; try exact I.
      * eapply T; [apply IH | lia].
      * cbn. lia.
      * cbn. lia.
    + pose proof (call_size _ _ _ _ Ec) as L. cbn in L.
      pose proof (IH el s') as Hb.
      destruct (exec _ _ _ _ _ f el s') as [s1|s1|s1|e0| |] eqn:Eb; cbn in Hb; try exact I.
      * eapply T; [apply IH | lia].
      * cbn. lia.
      * cbn. lia.
  - destruct (complete (cur s)); [exact (IH r (set_verified _ s true)) | exact I].
  - cbn. lia.
Qed.

(* a statement list with a mandatory call at its top level: falling through it consumes at least one token *)
Lemma exec_progress : forall f ss (s s' : tst), has_req ss = true -> exec' f ss s = FNext _ s' -> sz s' < sz s.
Proof.
  induction f as [|f IH]; intros ss s s' Hr He; [discriminate|].
  cbn [exec] in He. destruct ss as [|x r]; [discriminate|].
  unfold has_req in Hr. cbn [existsb] in Hr. fold (has_req r) in Hr.
  assert (SZ : forall ss0 s0 s1, exec _ detect extract complete fparse f ss0 s0 = FNext _ s1 -> sz s1 <= sz s0).
  { intros ss0 s0 s1 E. pose proof (exec_size f ss0 s0) as H. idtac. rewrite E in H. exact H. }
  assert (SB : forall ss0 s0 s1, exec _ detect extract complete fparse f ss0 s0 = FBreak _ s1 -> sz s1 <= sz s0).
  { intros ss0 s0 s1 E. pose proof (exec_size f ss0 s0) as H. idtac. rewrite E in H. exact H. }
  destruct x; cbn [is_req orb] in Hr.
  - destruct (call' (SReq ty tag d) s) as [[[p s1|e s1] d']|] eqn:Ec; try discriminate.
    pose proof (call_size _ _ _ _ Ec) as [_ L]. specialize (L eq_refl). apply SZ in He. rewrite sz_bind in He. lia.
  - destruct (call' (SOpt ty tag d) s) as [[[p s1|e s1] d']|] eqn:Ec; try discriminate.
    pose proof (call_size _ _ _ _ Ec) as [L _]. apply (IH _ _ _ Hr) in He. rewrite sz_bind in He. lia.
  - destruct (call' (SReqV fam base d) s) as [[[p s1|e s1] d']|] eqn:Ec; try discriminate.
    pose proof (call_size _ _ _ _ Ec) as [_ L]. specialize (L eq_refl). apply SZ in He. rewrite sz_bind in He. lia.
  - destruct (call' (SOptV fam base d) s) as [[[p s1|e s1] d']|] eqn:Ec; try discriminate.
    pose proof (call_size _ _ _ _ Ec) as [L _]. apply (IH _ _ _ Hr) in He. rewrite sz_bind in He. lia.
  - exact (IH r (set_dup _ s b) s' Hr He).
  - exact (IH r (set_env _ s v (S (get _ s v))) s' Hr He).
  - exact (IH r (set_env _ s v 1) s' Hr He).
  - exact (IH r (set_env _ s v 0) s' Hr He).
  - destruct (eval' c s); [|exact (IH r s s' Hr He)].
    destruct (exec _ _ _ _ _ f body s) as [s1|s1|s1|e| |] eqn:Eb; try discriminate.
    + apply SZ in Eb. assert (H2 : has_req (SWhile c body :: r) = true) by (unfold has_req; cbn [existsb is_req orb]; exact Hr).
      apply (IH _ _ _ H2) in He. lia.
    + apply SB in Eb. apply (IH _ _ _ Hr) in He. lia.
  - destruct (exec _ _ _ _ _ f (if eval' c s then th else el) s) as [s1|s1|s1|e| |] eqn:Eb; try discriminate.
    apply SZ in Eb. apply (IH _ _ _ Hr) in He. lia.
  - discriminate.
  - discriminate.
  - destruct (first_letter _ _ (cur s) base (if all_letters then letters26 else letters7)) as [l|]; [|exact (IH r s s' Hr He)].
    destruct (exec _ _ _ _ _ f (pick_arm l arms default) s) as [s1|s1|s1|e| |] eqn:Eb; try discriminate.
    apply SZ in Eb. apply (IH _ _ _ Hr) in He. lia.
  - destruct (call' x s) as [[[p s1|e s1] d']|] eqn:Ec; try discriminate.
    + pose proof (call_size _ _ _ _ Ec) as [L _].
      destruct (exec _ _ _ _ _ f body (bind _ s1 d' p)) as [s2|s2|s2|e| |] eqn:Eb; try discriminate.
      * apply SZ in Eb. rewrite sz_bind in Eb.
        assert (H2 : has_req (SWhileLetOk x body :: r) = true) by (unfold has_req; cbn [existsb is_req orb]; exact Hr).
        apply (IH _ _ _ H2) in He. lia.
      * apply SB in Eb. rewrite sz_bind in Eb. apply (IH _ _ _ Hr) in He. lia.
    + pose proof (call_size _ _ _ _ Ec) as L. cbn in L. apply (IH _ _ _ Hr) in He. lia.
  - destruct (call' x s) as [[[p s1|e s1] d']|] eqn:Ec; try discriminate.
    + pose proof (call_size _ _ _ _ Ec) as [L _].
      destruct (exec _ _ _ _ _ f (if some_only && negb p then el else th) (bind _ s1 d' p)) as [s2|s2|s2|e| |] eqn:Eb; try discriminate.
      apply SZ in Eb. rewrite sz_bind in Eb. apply (IH _ _ _ Hr) in He. lia.
    + pose proof (call_size _ _ _ _ Ec) as L. cbn in L.
      destruct (exec _ _ _ _ _ f el s1) as [s2|s2|s2|e0| |] eqn:Eb; try discriminate.
      apply SZ in Eb. apply (IH _ _ _ Hr) in He. lia.
  - destruct (complete (cur s)); [|discriminate]. exact (IH r (set_verified _ s true) s' Hr He).
  - discriminate.
Qed.

(* ---- more fuel does not change an answer *)
Lemma exec_mono1 : forall f ss (s : tst) r, exec' f ss s = r -> r <> FOutOfFuel _ -> exec' (S f) ss s = r.
Proof.
  induction f as [|f IH]; intros ss s r H Hr; [cbn in H; congruence|].
  idtac.
  cbn [exec] in H. remember (S f) as g eqn:Eg. cbn [exec]. subst g.
  destruct ss as [|x r0]; [exact H|].
  destruct x.
  - destruct (call' (SReq ty tag d) s) as [[[p s1|e s1] d']|]; try exact H. apply IH; assumption.
  - destruct (call' (SOpt ty tag d) s) as [[[p s1|e s1] d']|]; try exact H. apply IH; assumption.
  - destruct (call' (SReqV fam base d) s) as [[[p s1|e s1] d']|]; try exact H. apply IH; assumption.
  - destruct (call' (SOptV fam base d) s) as [[[p s1|e s1] d']|]; try exact H. apply IH; assumption.
  - apply IH; assumption.
  - apply IH; assumption.
  - apply IH; assumption.
  - apply IH; assumption.
  - destruct (eval' c s); [|apply IH; assumption].
    destruct (exec _ _ _ _ _ f body s) as [s1|s1|s1|e| |] eqn:Eb; try congruence;
      rewrite (IH _ _ _ Eb) by discriminate; try exact H; apply IH; assumption.
  - destruct (exec _ _ _ _ _ f (if eval' c s then th else el) s) as [s1|s1|s1|e| |] eqn:Eb; try congruence;
      rewrite (IH _ _ _ Eb) by discriminate; try exact H; apply IH; assumption.
  - exact H.
  - exact H.
  - destruct (first_letter _ _ (cur s) base (if all_letters then letters26 else letters7)) as [l|]; [|apply IH; assumption].
    destruct (exec _ _ _ _ _ f (pick_arm l arms default) s) as [s1|s1|s1|e| |] eqn:Eb; try congruence;
      rewrite (IH _ _ _ Eb) by discriminate; try exact H; apply IH; assumption.
  - destruct (call' x s) as [[[p s1|e s1] d']|]; try exact H.
    + destruct (exec _ _ _ _ _ f body (bind _ s1 d' p)) as [s2|s2|s2|e| |] eqn:Eb; try congruence;
        rewrite (IH _ _ _ Eb) by discriminate; try exact H; apply IH; assumption.
    + apply IH; assumption.
  - destruct (call' x s) as [[[p s1|e s1] d']|]; try exact H.
    + destruct (exec _ _ _ _ _ f (if some_only && negb p then el else th) (bind _ s1 d' p)) as [s2|s2|s2|e| |] eqn:Eb; try congruence;
        rewrite (IH _ _ _ Eb) by discriminate; try exact H; apply IH; assumption.
    + destruct (exec _ _ _ _ _ f el s1) as [s2|s2|s2|e0| |] eqn:Eb; try congruence;
        rewrite (IH _ _ _ Eb) by discriminate; try exact H; apply IH; assumption.
  - destruct (complete (cur s)); [apply IH; assumption | exact H].
  - exact H.
Qed.

Lemma exec_mono : forall f g ss (s : tst) r, f <= g -> exec' f ss s = r -> r <> FOutOfFuel _ -> exec' g ss s = r.
Proof.
  intros f g ss s r L H Hr. induction L as [|g L IH]; [exact H|].
  apply exec_mono1; assumption.
Qed.

(* ---- enough fuel exists *)
Definition Term (ss : list stmt) (s : tst) : Prop := exists f, exec' f ss s <> FOutOfFuel _.

Lemma fuel2 : forall f1 f2 ss1 (s1 : tst) ss2 (s2 : tst),
  exec' f1 ss1 s1 <> FOutOfFuel _ -> exec' f2 ss2 s2 <> FOutOfFuel _ ->
  exec' (Nat.max f1 f2) ss1 s1 = exec' f1 ss1 s1 /\ exec' (Nat.max f1 f2) ss2 s2 = exec' f2 ss2 s2.
Proof.
  intros f1 f2 ss1 s1 ss2 s2 H1 H2. split.
  - apply exec_mono with (f := f1); [lia | reflexivity | exact H1].
  - apply exec_mono with (f := f2); [lia | reflexivity | exact H2].
Qed.

Lemma loop_term : forall B K1 K2 (s : tst),
  Term B s ->
  (forall f s', exec' f B s = FNext _ s' -> Term K1 s') ->
  (forall f s', exec' f B s = FBreak _ s' -> Term K2 s') ->
  exists f, match exec' f B s with FNext _ s' => exec' f K1 s' | FBreak _ s' => exec' f K2 s' | other => other end <> FOutOfFuel _.
Proof.
  intros B K1 K2 s [f1 H1] HN HB.
  destruct (exec' f1 B s) as [s1|s1|s1|e| |] eqn:E.
  - destruct (HN _ _ E) as [f2 H2]. exists (Nat.max f1 f2).
    assert (H1' : exec' f1 B s <> FOutOfFuel _) by (rewrite E; discriminate).
    destruct (fuel2 f1 f2 B s K1 s1 H1' H2) as [A1 A2]. rewrite A1, E, A2. exact H2.
  - destruct (HB _ _ E) as [f2 H2]. exists (Nat.max f1 f2).
    assert (H1' : exec' f1 B s <> FOutOfFuel _) by (rewrite E; discriminate).
    destruct (fuel2 f1 f2 B s K2 s1 H1' H2) as [A1 A2]. rewrite A1, E, A2. exact H2.
  - exists f1. rewrite E. discriminate.
  - exists f1. rewrite E. discriminate.
  - exfalso. apply H1. reflexivity.
  - exists f1. rewrite E. discriminate.
Qed.

Lemma seq_term : forall B K (s : tst),
  Term B s ->
  (forall f s', exec' f B s = FNext _ s' -> Term K s') ->
  exists f, match exec' f B s with FNext _ s' => exec' f K s' | other => other end <> FOutOfFuel _.
Proof.
  intros B K s [f1 H1] HN.
  destruct (exec' f1 B s) as [s1|s1|s1|e| |] eqn:E.
  - destruct (HN _ _ E) as [f2 H2]. exists (Nat.max f1 f2).
    assert (H1' : exec' f1 B s <> FOutOfFuel _) by (rewrite E; discriminate).
    destruct (fuel2 f1 f2 B s K s1 H1' H2) as [A1 A2]. rewrite A1, E, A2. exact H2.
  - exists f1. rewrite E. discriminate.
  - exists f1. rewrite E. discriminate.
  - exists f1. rewrite E. discriminate.
  - exfalso. apply H1. reflexivity.
  - exists f1. rewrite E. discriminate.
Qed.

(* syntactic size of a statement list: the inner measure *)
Fixpoint ssize (x : stmt) : nat :=
  match x with
  | SWhile _ body => S (list_sum (map ssize body))
  | SIf _ th el => S (list_sum (map ssize th) + list_sum (map ssize el))
  | SPeek _ _ arms d =>
      S ((fix ga (a : list (list bytes * list stmt)) := match a with [] => 0 | (_, b) :: r => list_sum (map ssize b) + ga r end) arms
         + list_sum (map ssize d))
  | SWhileLetOk _ body => S (list_sum (map ssize body))
  | STryElse _ _ th el => S (list_sum (map ssize th) + list_sum (map ssize el))
  | _ => 1
  end.
Definition lsize (ss : list stmt) : nat := list_sum (map ssize ss).

Lemma pick_arm_ok : forall l arms d all_letters base,
  loops_ok_stmt (SPeek all_letters base arms d) = true ->
  loops_ok (pick_arm l arms d) = true /\ lsize (pick_arm l arms d) < ssize (SPeek all_letters base arms d).
Proof.
  intros l arms d al base H. cbn [loops_ok_stmt ssize] in *. apply andb_prop in H. destruct H as [Ha Hd].
  induction arms as [|[ls b] r IH]; cbn [pick_arm].
  - split; [exact Hd | unfold lsize; lia].
  - apply andb_prop in Ha. destruct Ha as [Hb Hr]. destruct (mem l ls).
    + split; [exact Hb | unfold lsize; lia].
    + destruct (IH Hr) as [A B]. split; [exact A | lia].
Qed.

Theorem exec_terminates_lex : forall n m ss (s : tst),
  sz s <= n -> lsize ss <= m -> loops_ok ss = true -> Term ss s.
Proof.
  induction n as [n IHn] using lt_wf_ind.
  induction m as [|m IHm]; intros ss s Hn Hm Hok.
  - destruct ss as [|x r]; [exists 1; discriminate|].
    exfalso. change (ssize x + lsize r <= 0) in Hm. assert (1 <= ssize x) by (destruct x; cbn [ssize]; lia). lia.
  - destruct ss as [|x r]; [exists 1; discriminate|].
    unfold loops_ok in Hok. cbn [forallb] in Hok. apply andb_prop in Hok. destruct Hok as [Hx Hr].
    assert (Sx : 1 <= ssize x) by (destruct x; cbn [ssize]; lia).
    assert (Sr : lsize (x :: r) = ssize x + lsize r) by reflexivity.
    assert (TR : forall s' : tst, sz s' <= sz s -> Term r s').
    { intros s' L. apply IHm; [lia | lia | exact Hr]. }
    assert (TB : forall b (s' : tst), sz s' <= sz s -> lsize b < ssize x -> loops_ok b = true -> Term b s').
    { intros b s' L Lb Ob. apply IHm; [lia | lia | exact Ob]. }
    assert (TL : forall s' : tst, sz s' < sz s -> Term (x :: r) s').
    { intros s' L. apply (IHn (sz s')) with (m := S m); [lia | lia | exact Hm |].
      unfold loops_ok. cbn [forallb]. rewrite Hx. exact Hr. }
    assert (SZ : forall f ss0 (s0 s1 : tst), exec' f ss0 s0 = FNext _ s1 -> sz s1 <= sz s0).
    { intros f ss0 s0 s1 E. pose proof (exec_size f ss0 s0) as H. rewrite E in H. exact H. }
    assert (SB : forall f ss0 (s0 s1 : tst), exec' f ss0 s0 = FBreak _ s1 -> sz s1 <= sz s0).
    { intros f ss0 s0 s1 E. pose proof (exec_size f ss0 s0) as H. rewrite E in H. exact H. }
    assert (CALL : forall c, (c = x) -> Term (x :: r) s ->  Term (x :: r) s) by (intros; assumption). clear CALL.
    unfold Term in *. idtac.
    destruct x.
    + destruct (call' (SReq ty tag d) s) as [[[p s1|e s1] d']|] eqn:Ec.
      * pose proof (call_size _ _ _ _ Ec) as [L _]. destruct (TR (bind _ s1 d' p)) as [f Hf]; [rewrite sz_bind; exact L|].
        exists (S f). cbn [exec]. rewrite Ec. exact Hf.
      * exists 1. cbn [exec]. rewrite Ec. discriminate.
      * exists 1. cbn [exec]. rewrite Ec. discriminate.
    + destruct (call' (SOpt ty tag d) s) as [[[p s1|e s1] d']|] eqn:Ec.
      * pose proof (call_size _ _ _ _ Ec) as [L _]. destruct (TR (bind _ s1 d' p)) as [f Hf]; [rewrite sz_bind; exact L|].
        exists (S f). cbn [exec]. rewrite Ec. exact Hf.
      * exists 1. cbn [exec]. rewrite Ec. discriminate.
      * exists 1. cbn [exec]. rewrite Ec. discriminate.
    + destruct (call' (SReqV fam base d) s) as [[[p s1|e s1] d']|] eqn:Ec.
      * pose proof (call_size _ _ _ _ Ec) as [L _]. destruct (TR (bind _ s1 d' p)) as [f Hf]; [rewrite sz_bind; exact L|].
        exists (S f). cbn [exec]. rewrite Ec. exact Hf.
      * exists 1. cbn [exec]. rewrite Ec. discriminate.
      * exists 1. cbn [exec]. rewrite Ec. discriminate.
    + destruct (call' (SOptV fam base d) s) as [[[p s1|e s1] d']|] eqn:Ec.
      * pose proof (call_size _ _ _ _ Ec) as [L _]. destruct (TR (bind _ s1 d' p)) as [f Hf]; [rewrite sz_bind; exact L|].
        exists (S f). cbn [exec]. rewrite Ec. exact Hf.
      * exists 1. cbn [exec]. rewrite Ec. discriminate.
      * exists 1. cbn [exec]. rewrite Ec. discriminate.
    + destruct (TR (set_dup _ s b)) as [f Hf]; [apply le_n|]. exists (S f). cbn [exec]. exact Hf.
    + destruct (TR (set_env _ s v (S (get _ s v)))) as [f Hf]; [apply le_n|]. exists (S f). cbn [exec]. exact Hf.
    + destruct (TR (set_env _ s v 1)) as [f Hf]; [apply le_n|]. exists (S f). cbn [exec]. exact Hf.
    + destruct (TR (set_env _ s v 0)) as [f Hf]; [apply le_n|]. exists (S f). cbn [exec]. exact Hf.
    + cbn [loops_ok_stmt] in Hx. apply andb_prop in Hx. destruct Hx as [Hq Hb].
      destruct (eval' c s) eqn:Ev.
      * destruct (loop_term body (SWhile c body :: r) r s) as [f Hf].
        -- apply TB; [lia | cbn [ssize]; unfold lsize; lia | exact Hb].
        -- intros f s' E. apply TL. exact (exec_progress _ _ _ _ Hq E).
        -- intros f s' E. apply TR. exact (SB _ _ _ _ E).
        -- exists (S f). cbn [exec]. rewrite Ev. exact Hf.
      * destruct (TR s) as [f Hf]; [lia|]. exists (S f). cbn [exec]. rewrite Ev. exact Hf.
    + cbn [loops_ok_stmt] in Hx. apply andb_prop in Hx. destruct Hx as [Ht He].
      destruct (seq_term (if eval' c s then th else el) r s) as [f Hf].
      * destruct (eval' c s); (apply TB; [lia | cbn [ssize]; unfold lsize; lia | assumption]).
      * intros f s' E. apply TR. exact (SZ _ _ _ _ E).
      * exists (S f). cbn [exec]. exact Hf.
    + exists 1. discriminate.
    + exists 1. discriminate.
    + destruct (first_letter C detect (cur s) base (if all_letters then letters26 else letters7)) as [l|] eqn:El.
      * destruct (pick_arm_ok l arms default all_letters base Hx) as [Ok Lt].
        destruct (seq_term (pick_arm l arms default) r s) as [f Hf].
        -- apply TB; [lia | exact Lt | exact Ok].
        -- intros f s' E. apply TR. exact (SZ _ _ _ _ E).
        -- exists (S f). cbn [exec]. rewrite El. exact Hf.
      * destruct (TR s) as [f Hf]; [lia|]. exists (S f). cbn [exec]. rewrite El. exact Hf.
    + cbn [loops_ok_stmt] in Hx. apply andb_prop in Hx. destruct Hx as [Hq Hb].
      destruct (call' x s) as [[[p s1|e s1] d']|] eqn:Ec.
      * pose proof (call_size _ _ _ _ Ec) as [L1 L2]. specialize (L2 Hq).
        destruct (loop_term body (SWhileLetOk x body :: r) r (bind _ s1 d' p)) as [f Hf].
        -- apply TB; [rewrite sz_bind; lia | cbn [ssize]; unfold lsize; lia | exact Hb].
        -- intros f s' E. apply TL. pose proof (SZ _ _ _ _ E) as L3. rewrite sz_bind in L3. lia.
        -- intros f s' E. apply TR. pose proof (SB _ _ _ _ E) as L3. rewrite sz_bind in L3. lia.
        -- exists (S f). cbn [exec]. rewrite Ec. exact Hf.
      * pose proof (call_size _ _ _ _ Ec) as L. destruct (TR s1) as [f Hf]; [exact L|].
        exists (S f). cbn [exec]. rewrite Ec. exact Hf.
      * exists 1. cbn [exec]. rewrite Ec. discriminate.
    + cbn [loops_ok_stmt] in Hx. apply andb_prop in Hx. destruct Hx as [Ht He].
      destruct (call' x s) as [[[p s1|e s1] d']|] eqn:Ec.
      * pose proof (call_size _ _ _ _ Ec) as [L1 _].
        destruct (seq_term (if some_only && negb p then el else th) r (bind _ s1 d' p)) as [f Hf].
        -- destruct (some_only && negb p); (apply TB; [rewrite sz_bind; lia | cbn [ssize]; unfold lsize; lia | assumption]).
        -- intros f s' E. apply TR. pose proof (SZ _ _ _ _ E) as L3. rewrite sz_bind in L3. lia.
        -- exists (S f). cbn [exec]. rewrite Ec. exact Hf.
      * pose proof (call_size _ _ _ _ Ec) as L.
        destruct (seq_term el r s1) as [f Hf].
        -- apply TB; [exact L | cbn [ssize]; unfold lsize; lia | exact He].
        -- intros f s' E. apply TR. pose proof (SZ _ _ _ _ E) as L3. cbn beta iota in L. lia.
        -- exists (S f). cbn [exec]. rewrite Ec. exact Hf.
      * exists 1. cbn [exec]. rewrite Ec. discriminate.
    + destruct (complete (cur s)) eqn:Ecm.
      * destruct (TR (set_verified _ s true)) as [f Hf]; [apply le_n|]. exists (S f). cbn [exec]. rewrite Ecm. exact Hf.
      * exists 1. cbn [exec]. rewrite Ecm. discriminate.
    + exists 1. discriminate.
Qed.

(* the statement used by C07: a layout whose loops make progress never runs out of fuel on any token list *)
Theorem exec_terminates : forall ss (s : tst), loops_ok ss = true -> exists f, forall g, f <= g -> exec' g ss s <> FOutOfFuel _.
Proof.
  intros ss s H. destruct (exec_terminates_lex (sz s) (lsize ss) ss s (le_n _) (le_n _) H) as [f Hf].
  exists f. intros g L. rewrite (exec_mono f g ss s _ L eq_refl Hf). exact Hf.
Qed.

(* ---- an explicit bound: fuel linear in the size of the layout and of the remaining input *)
Lemma not_oof_next : forall B K1 K2 f (s : tst),
  exec' f B s <> FOutOfFuel _ ->
  (forall s', exec' f B s = FNext _ s' -> exec' f K1 s' <> FOutOfFuel _) ->
  (forall s', exec' f B s = FBreak _ s' -> exec' f K2 s' <> FOutOfFuel _) ->
  match exec' f B s with FNext _ s' => exec' f K1 s' | FBreak _ s' => exec' f K2 s' | other => other end <> FOutOfFuel _.
Proof.
  intros B K1 K2 f s H HN HB. destruct (exec' f B s) as [s1|s1|s1|e| |]; try discriminate.
  - apply HN. reflexivity.
  - apply HB. reflexivity.
  - exact H.
Qed.

Lemma not_oof_seq : forall B K f (s : tst),
  exec' f B s <> FOutOfFuel _ ->
  (forall s', exec' f B s = FNext _ s' -> exec' f K s' <> FOutOfFuel _) ->
  match exec' f B s with FNext _ s' => exec' f K s' | other => other end <> FOutOfFuel _.
Proof.
  intros B K f s H HN. destruct (exec' f B s) as [s1|s1|s1|e| |]; try discriminate.
  - apply HN. reflexivity.
  - exact H.
Qed.

Theorem exec_fuel_bound : forall f ss (s : tst),
  loops_ok ss = true -> lsize ss + sz s + 1 <= f -> exec' f ss s <> FOutOfFuel _.
Proof.
  induction f as [|f IH]; intros ss s Hok Hf; [lia|].
  destruct ss as [|x r]; [discriminate|].
  unfold loops_ok in Hok. cbn [forallb] in Hok. apply andb_prop in Hok. destruct Hok as [Hx Hr].
  assert (Sx : 1 <= ssize x) by (destruct x; cbn [ssize]; lia).
  change (ssize x + lsize r + sz s + 1 <= S f) in Hf.
  assert (TR : forall s' : tst, sz s' <= sz s -> exec' f r s' <> FOutOfFuel _).
  { intros s' L. apply IH; [exact Hr | lia]. }
  assert (TB : forall b (s' : tst), sz s' <= sz s -> lsize b < ssize x -> loops_ok b = true -> exec' f b s' <> FOutOfFuel _).
  { intros b s' L Lb Ob. apply IH; [exact Ob | lia]. }
  assert (TL : forall s' : tst, sz s' < sz s -> exec' f (x :: r) s' <> FOutOfFuel _).
  { intros s' L. apply IH; [unfold loops_ok; cbn [forallb]; rewrite Hx; exact Hr|].
    change (ssize x + lsize r + sz s' + 1 <= f). lia. }
  assert (SZ : forall ss0 (s0 s1 : tst), exec' f ss0 s0 = FNext _ s1 -> sz s1 <= sz s0).
  { intros ss0 s0 s1 E. pose proof (exec_size f ss0 s0) as H. rewrite E in H. exact H. }
  assert (SB : forall ss0 (s0 s1 : tst), exec' f ss0 s0 = FBreak _ s1 -> sz s1 <= sz s0).
  { intros ss0 s0 s1 E. pose proof (exec_size f ss0 s0) as H. rewrite E in H. exact H. }
  cbn [exec]. destruct x.
  - destruct (call' (SReq ty tag d) s) as [[[p s1|e s1] d']|] eqn:Ec; try discriminate.
    pose proof (call_size _ _ _ _ Ec) as [L _]. apply TR. rewrite sz_bind. exact L.
  - destruct (call' (SOpt ty tag d) s) as [[[p s1|e s1] d']|] eqn:Ec; try discriminate.
    pose proof (call_size _ _ _ _ Ec) as [L _]. apply TR. rewrite sz_bind. exact L.
  - destruct (call' (SReqV fam base d) s) as [[[p s1|e s1] d']|] eqn:Ec; try discriminate.
    pose proof (call_size _ _ _ _ Ec) as [L _]. apply TR. rewrite sz_bind. exact L.
  - destruct (call' (SOptV fam base d) s) as [[[p s1|e s1] d']|] eqn:Ec; try discriminate.
    pose proof (call_size _ _ _ _ Ec) as [L _]. apply TR. rewrite sz_bind. exact L.
  - apply TR. apply le_n.
  - apply TR. apply le_n.
  - apply TR. apply le_n.
  - apply TR. apply le_n.
  - cbn [loops_ok_stmt] in Hx. apply andb_prop in Hx. destruct Hx as [Hq Hb].
    destruct (eval' c s); [|apply TR; apply le_n].
    apply not_oof_next.
    + apply TB; [apply le_n | cbn [ssize]; unfold lsize; lia | exact Hb].
    + intros s' E. apply TL. exact (exec_progress _ _ _ _ Hq E).
    + intros s' E. apply TR. exact (SB _ _ _ E).
  - cbn [loops_ok_stmt] in Hx. apply andb_prop in Hx. destruct Hx as [Ht He].
    apply not_oof_seq.
    + destruct (eval' c s); (apply TB; [apply le_n | cbn [ssize]; unfold lsize; lia | assumption]).
    + intros s' E. apply TR. exact (SZ _ _ _ E).
  - discriminate.
  - discriminate.
  - destruct (first_letter C detect (cur s) base (if all_letters then letters26 else letters7)) as [l|]; [|apply TR; apply le_n].
    destruct (pick_arm_ok l arms default all_letters base Hx) as [Ok Lt].
    apply not_oof_seq.
    + apply TB; [apply le_n | exact Lt | exact Ok].
    + intros s' E. apply TR. exact (SZ _ _ _ E).
  - cbn [loops_ok_stmt] in Hx. apply andb_prop in Hx. destruct Hx as [Hq Hb].
    destruct (call' x s) as [[[p s1|e s1] d']|] eqn:Ec; try discriminate.
    + pose proof (call_size _ _ _ _ Ec) as [L1 L2]. specialize (L2 Hq).
      apply not_oof_next.
      * apply TB; [rewrite sz_bind; lia | cbn [ssize]; unfold lsize; lia | exact Hb].
      * intros s' E. apply TL. pose proof (SZ _ _ _ E) as L3. rewrite sz_bind in L3. lia.
      * intros s' E. apply TR. pose proof (SB _ _ _ E) as L3. rewrite sz_bind in L3. lia.
    + pose proof (call_size _ _ _ _ Ec) as L. apply TR. exact L.
  - cbn [loops_ok_stmt] in Hx. apply andb_prop in Hx. destruct Hx as [Ht He].
    destruct (call' x s) as [[[p s1|e s1] d']|] eqn:Ec; try discriminate.
    + pose proof (call_size _ _ _ _ Ec) as [L1 _].
      apply not_oof_seq.
      * destruct (some_only && negb p); (apply TB; [rewrite sz_bind; lia | cbn [ssize]; unfold lsize; lia | assumption]).
      * intros s' E. apply TR. pose proof (SZ _ _ _ E) as L3. rewrite sz_bind in L3. lia.
    + pose proof (call_size _ _ _ _ Ec) as L. cbn beta iota in L.
      apply not_oof_seq.
      * apply TB; [exact L | cbn [ssize]; unfold lsize; lia | exact He].
      * intros s' E. apply TR. pose proof (SZ _ _ _ E) as L3. lia.
  - destruct (complete (cur s)); [apply TR; apply le_n | discriminate].
  - discriminate.
Qed.

End T.
