(* Engine/Abs.v — an abstract interpreter for the layout language over tag languages.
   The cursor of a concrete state (a token list) is abstracted by a finite set of head normal forms
   "next tag t, then a word of the residual expression r" / "nothing left"; the variables by exact or
   lower-bounded counters; fields_seen by a superset.  [asexec] runs a layout on such a state and either
   gives up (None) or returns abstract states covering every concrete outcome, none of which is a
   rejection.  Loops are unrolled until the loop-head state is inductive (checked, with a join after the
   first unrolling).  Soundness is proved in Engine/AbsSound.v. *)

From Coq Require Import Lia Bool.
From SwiftMT Require Import Base.Bytes Engine.Layout Engine.Tokens Engine.Regex.

(* a result or a diagnostic (code, context): the diagnostic has no logical role, it tells a reader where the
   analysis gave up: 1 fuel, 2 mandatory field not next, 3 duplicate check may fire, 4 parser verdict not known to be
   true, (5 unused), 6 fail statement reachable, 7 content may remain at the completeness check,
   8 loop state not inductive within the unrolling budget, 9 statement outside the analysed fragment *)
Inductive res (A : Type) := Ok (a : A) | Fail (code : nat) (ctx : list bytes).
Arguments Ok {A}. Arguments Fail {A}.
Definition heads (l : list hd) : list bytes := map (fun h => match h with HCons t _ => t | HEmpty => [] end) l.

(* ---- abstract counters *)
Record anat := { lo : nat; exact : bool }.
Definition aexact (n : nat) : anat := {| lo := n; exact := true |}.
Definition asucc (a : anat) : anat := {| lo := S (lo a); exact := exact a |}.
Definition anat_join (a b : anat) : anat :=
  if exact a && exact b && Nat.eqb (lo a) (lo b) then a else {| lo := Nat.min (lo a) (lo b); exact := false |}.
Definition anat_leq (a b : anat) : bool :=
  if exact b then exact a && Nat.eqb (lo a) (lo b) else Nat.leb (lo b) (lo a).

(* ---- abstract states *)
Record ast := {
  a_cur : list hd;                    (* [] = no concrete state *)
  a_seen : list bytes;                (* superset of fields_seen *)
  a_dup : option bool;                (* allow_duplicates, None = unknown *)
  a_env : list (bytes * anat)
}.
Definition bot : ast := {| a_cur := []; a_seen := []; a_dup := None; a_env := [] |}.
Definition is_bot (S : ast) : bool := match a_cur S with [] => true | _ => false end.
Definition aget (S : ast) (v : bytes) : anat := match lookup v (a_env S) with Some a => a | None => aexact 0 end.
Definition a_set (S : ast) (v : bytes) (a : anat) : ast :=
  {| a_cur := a_cur S; a_seen := a_seen S; a_dup := a_dup S; a_env := (v, a) :: a_env S |}.
Definition a_with_cur (S : ast) (c : list hd) : ast :=
  {| a_cur := c; a_seen := a_seen S; a_dup := a_dup S; a_env := a_env S |}.

Fixpoint hd_mem (h : hd) (l : list hd) : bool :=
  match l with [] => false | x :: r => hd_eqb h x || hd_mem h r end.
Fixpoint hd_union (a b : list hd) : list hd :=
  match a with
  | [] => b
  | x :: r => if hd_mem x b then hd_union r b else x :: hd_union r b
  end.
Definition dead (h : hd) : bool := match h with HCons _ RNone => true | _ => false end.
Definition hnf_live (r : re) : list hd := filter (fun h => negb (dead h)) (hnf r).

Definition keys (S : ast) : list bytes := map fst (a_env S).
Definition ajoin (A B : ast) : ast :=
  if is_bot A then B else if is_bot B then A else
  {| a_cur := hd_union (a_cur A) (a_cur B);
     a_seen := dedup (a_seen A ++ a_seen B);
     a_dup := match a_dup A, a_dup B with Some x, Some y => if Bool.eqb x y then Some x else None | _, _ => None end;
     a_env := map (fun v => (v, anat_join (aget A v) (aget B v))) (dedup (keys A ++ keys B)) |}.
Definition aleq (A B : ast) : bool :=
  is_bot A ||
  (forallb (fun h => hd_mem h (a_cur B)) (a_cur A)
   && forallb (fun t => mem t (a_seen B)) (a_seen A)
   && match a_dup B with None => true | Some y => match a_dup A with Some x => Bool.eqb x y | None => false end end
   && forallb (fun v => anat_leq (aget A v) (aget B v)) (keys A ++ keys B)).

(* ---- conditions: the part of the state where the condition holds / fails *)
Definition head_is (t : bytes) (h : hd) : bool := match h with HCons a _ => bytes_eqb a t | HEmpty => false end.
Definition is_empty_hd (h : hd) : bool := match h with HEmpty => true | _ => false end.

Fixpoint asplit (c : cond) (S : ast) : res (ast * ast) :=
  match c with
  | CDetect t => Ok (a_with_cur S (filter (head_is t) (a_cur S)), a_with_cur S (filter (fun h => negb (head_is t h)) (a_cur S)))
  | CComplete => Ok (a_with_cur S (filter is_empty_hd (a_cur S)), a_with_cur S (filter (fun h => negb (is_empty_hd h)) (a_cur S)))
  | CTrue => Ok (S, bot)
  | CNot a => match asplit a S with Ok (t, f) => Ok (f, t) | Fail c x => Fail c x end
  | CAnd a b =>
      match asplit a S with
      | Ok (ta, fa) => match asplit b ta with Ok (tb, fb) => Ok (tb, ajoin fa fb) | Fail c x => Fail c x end
      | Fail c x => Fail c x
      end
  | COr a b =>
      match asplit a S with
      | Ok (ta, fa) => match asplit b fa with Ok (tb, fb) => Ok (ajoin ta tb, fb) | Fail c x => Fail c x end
      | Fail c x => Fail c x
      end
  | CLenLt v n =>
      let a := aget S v in
      if exact a then (if Nat.ltb (lo a) n then Ok (S, bot) else Ok (bot, S))
      else if Nat.leb n (lo a) then Ok (bot, S) else Ok (S, S)
  | CLenGe v n =>
      let a := aget S v in
      if exact a then (if Nat.leb n (lo a) then Ok (S, bot) else Ok (bot, S))
      else if Nat.leb n (lo a) then Ok (S, bot) else Ok (S, S)
  | CIsZero v =>
      let a := aget S v in
      if exact a then (if Nat.eqb (lo a) 0 then Ok (S, bot) else Ok (bot, S))
      else if Nat.leb 1 (lo a) then Ok (bot, S) else Ok (S, S)
  | CNonZero v =>
      let a := aget S v in
      if exact a then (if Nat.eqb (lo a) 0 then Ok (bot, S) else Ok (S, bot))
      else if Nat.leb 1 (lo a) then Ok (S, bot) else Ok (S, S)
  end.

(* ---- cursor calls *)
Section Calls.
(* verdict of parser (type, letter) on a well-formed content of the tag: Some true / Some false / unknown *)
Variable fp : bytes -> option bytes -> bytes -> option bool.
(* the (type, letter, tag) triples the hypothesis on contents speaks about *)
Variable U : list (bytes * option bytes * bytes).
(* two uses of the same interpreter: strict (lax = false) gives up as soon as a rejection is possible, so an answer
   means "every described text is accepted"; lax (lax = true) drops the paths that certainly reject and keeps every path
   that may go on, so an answer without any accepting outcome means "every described text is rejected" *)
Variable lax : bool.
Definition rej (code : nat) (ctx : list bytes) : res ast := if lax then Ok bot else Fail code ctx.

Definition triple_eqb (a b : bytes * option bytes * bytes) : bool :=
  match a, b with
  | (ty, l, t), (ty', l', t') =>
      bytes_eqb ty ty' && bytes_eqb t t'
      && match l, l' with None, None => true | Some x, Some y => bytes_eqb x y | _, _ => false end
  end.
Definition inU (x : bytes * option bytes * bytes) : bool := existsb (triple_eqb x) U.
Definition verdict (ty : bytes) (l : option bytes) (t : bytes) : option bool :=
  if inU (ty, l, t) then fp ty l t else None.

Definition abind (S : ast) (d : dst) (present : bool) : ast :=
  match d with
  | DLet v => a_set S v (aexact (if present then 1 else 0))
  | DPush v => if present then a_set S v (asucc (aget S v)) else S
  | DNone => S
  end.

(* may the duplicate check of a mandatory extraction fire? *)
Definition nodup_ok (S : ast) (tag : bytes) : bool :=
  match a_dup S with
  | Some true => true
  | Some false => negb (mem tag (a_seen S))
  | None => false
  end.
Definition seen_after (S : ast) (tag : bytes) : option (list bytes) :=
  match a_dup S with
  | Some true => Some (a_seen S)
  | Some false => Some (tag :: a_seen S)
  | None => None
  end.

(* the state after consuming the head token of disjunct (tag, r) *)
Definition consume (S : ast) (tag : bytes) (r : re) : option ast :=
  match seen_after S tag with
  | Some sn => Some {| a_cur := hnf_live r; a_seen := sn; a_dup := a_dup S; a_env := a_env S |}
  | None => None
  end.

Fixpoint afirst_letter (a base : bytes) (ls : list bytes) : option bytes :=
  match ls with
  | [] => if bytes_eqb a base then Some [] else None
  | l :: r => if bytes_eqb a (base ++ l) then Some l else afirst_letter a base r
  end.

(* one call on the state restricted to one disjunct *)
Definition consumed (S : ast) (ty : bytes) (l : option bytes) (tag : bytes) (r : re) (d : dst) : res ast :=
  match verdict ty l tag with
  | Some true => match consume S tag r with Some S' => Ok (abind S' d true) | None => Fail 3 [tag] end
  | Some false => rej 4 [ty; tag]
  | None => if lax then match consume S tag r with Some S' => Ok (abind S' d true) | None => Fail 3 [tag] end
            else Fail 4 [ty; tag]
  end.

Definition acall1 (x : stmt) (S : ast) (h : hd) : res ast :=
  match x with
  | SReq ty tag d =>
      match h with
      | HCons a r =>
          if bytes_eqb a tag then
            if nodup_ok S tag || lax then consumed S ty None tag r d else Fail 3 [tag]
          else rej 2 [tag; a]
      | HEmpty => rej 2 [tag]
      end
  | SOpt ty tag d =>
      match h with
      | HCons a r =>
          if bytes_eqb a tag then consumed S ty None tag r d
          else Ok (abind (a_with_cur S [h]) d false)
      | HEmpty => Ok (abind (a_with_cur S [h]) d false)
      end
  | SReqV fam base d =>
      match h with
      | HCons a r =>
          match afirst_letter a base letters7 with
          | Some l => if nodup_ok S a || lax then consumed S fam (Some l) a r d else Fail 3 [a]
          | None => rej 2 [base; a]
          end
      | HEmpty => rej 2 [base]
      end
  | SOptV fam base d =>
      match h with
      | HCons a r =>
          match afirst_letter a base letters7 with
          | Some l => consumed S fam (Some l) a r d
          | None => Ok (abind (a_with_cur S [h]) d false)
          end
      | HEmpty => Ok (abind (a_with_cur S [h]) d false)
      end
  | _ => Fail 9 []
  end.

Fixpoint acall_all (x : stmt) (S : ast) (hs : list hd) : res ast :=
  match hs with
  | [] => Ok bot
  | h :: r =>
      match acall1 x S h with
      | Ok A => match acall_all x S r with Ok B => Ok (ajoin A B) | Fail c y => Fail c y end
      | Fail c y => Fail c y
      end
  end.
Definition acall (x : stmt) (S : ast) : res ast := acall_all x S (a_cur S).

(* ---- outcomes *)
Record aout := { o_next : ast; o_break : ast; o_ret : bool }.
Definition out_bot : aout := {| o_next := bot; o_break := bot; o_ret := false |}.
Definition ojoin (a b : aout) : aout :=
  {| o_next := ajoin (o_next a) (o_next b); o_break := ajoin (o_break a) (o_break b); o_ret := o_ret a || o_ret b |}.

(* the loop: unroll until the loop-head state is inductive *)
(* the states in which a loop is left are kept apart (up to 8; beyond, joined into the first): what follows the loop is
   analysed once per exit state, so that a test on a counter right after the loop sees the value that goes with the
   remaining input *)
Definition add_exit (E : ast) (l : list ast) : list ast :=
  if is_bot E then l
  else if existsb (aleq E) l then l
  else if Nat.ltb (List.length l) 8 then E :: l
  else match l with X :: r => ajoin X E :: r | [] => [E] end.

Fixpoint aloop (run : list stmt -> ast -> res aout) (k : nat) (joined : bool) (c : cond) (body : list stmt)
               (S : ast) (exits : list ast) (ret : bool) : res (list ast * bool) :=
  match k with
  | 0 => Fail 8 (heads (a_cur S))
  | S k' =>
      match asplit c S with
      | Fail e y => Fail e y
      | Ok (St, Sf) =>
          match run body St with
          | Fail e y => Fail e y
          | Ok ob =>
              let exits' := add_exit (o_break ob) (add_exit Sf exits) in
              let ret' := ret || o_ret ob in
              if aleq (o_next ob) S then Ok (exits', ret')
              else aloop run k' true c body
                     (if joined && forallb (fun h => hd_mem h (a_cur S)) (a_cur (o_next ob)) && forallb (fun h => hd_mem h (a_cur (o_next ob))) (a_cur S)
                      then ajoin S (o_next ob) else o_next ob)
                     exits' ret'
          end
      end
  end.

(* the rest of a statement list from each of several states *)
Fixpoint acont (run : list stmt -> ast -> res aout) (r : list stmt) (Es : list ast) : res aout :=
  match Es with
  | [] => Ok out_bot
  | E :: t =>
      match run r E with
      | Ok a => match acont run r t with Ok b => Ok (ojoin a b) | Fail e y => Fail e y end
      | Fail e y => Fail e y
      end
  end.

Fixpoint apeek (run : list stmt -> ast -> res aout) (ls : list bytes) (base : bytes)
               (arms : list (list bytes * list stmt)) (default : list stmt) (S : ast) (hs : list hd) : res aout :=
  match hs with
  | [] => Ok out_bot
  | h :: r =>
      let Sh := a_with_cur S [h] in
      let oh := match h with
                | HCons a _ =>
                    match afirst_letter a base ls with
                    | Some l => run (pick_arm l arms default) Sh
                    | None => Ok {| o_next := Sh; o_break := bot; o_ret := false |}
                    end
                | HEmpty => Ok {| o_next := Sh; o_break := bot; o_ret := false |}
                end in
      match oh with
      | Ok a => match apeek run ls base arms default S r with Ok b => Ok (ojoin a b) | Fail e y => Fail e y end
      | Fail e y => Fail e y
      end
  end.

Definition loop_fuel : nat := 1200.

Fixpoint asexec (n : nat) (ss : list stmt) (S : ast) : res aout :=
  match n with
  | 0 => Fail 1 []
  | S n' =>
    if is_bot S then Ok out_bot else
    match ss with
    | [] => Ok {| o_next := S; o_break := bot; o_ret := false |}
    | x :: r =>
      let continue (o : aout) : res aout :=
        match asexec n' r (o_next o) with
        | Ok o2 => Ok {| o_next := o_next o2; o_break := ajoin (o_break o) (o_break o2); o_ret := o_ret o || o_ret o2 |}
        | Fail e y => Fail e y
        end in
      match x with
      | SReq _ _ _ | SOpt _ _ _ | SReqV _ _ _ | SOptV _ _ _ =>
          match acall x S with Ok S' => asexec n' r S' | Fail e y => Fail e y end
      | SDup b => asexec n' r {| a_cur := a_cur S; a_seen := a_seen S; a_dup := Some b; a_env := a_env S |}
      | SPush v => asexec n' r (a_set S v (asucc (aget S v)))
      | SSet v => asexec n' r (a_set S v (aexact 1))
      | SZero v => asexec n' r (a_set S v (aexact 0))
      | SWhile c body =>
          match aloop (asexec n') loop_fuel false c body S [] false with
          | Ok (Es, R) =>
              match acont (asexec n') r Es with
              | Ok o2 => Ok {| o_next := o_next o2; o_break := o_break o2; o_ret := R || o_ret o2 |}
              | Fail e y => Fail e y
              end
          | Fail e y => Fail e y
          end
      | SIf c th el =>
          match asplit c S with
          | Ok (St, Sf) =>
              match asexec n' th St with
              | Ok ot => match asexec n' el Sf with Ok oe => continue (ojoin ot oe) | Fail e y => Fail e y end
              | Fail e y => Fail e y
              end
          | Fail e y => Fail e y
          end
      | SBreak => Ok {| o_next := bot; o_break := S; o_ret := false |}
      | SFail m => if lax then Ok out_bot else Fail 6 (m :: heads (a_cur S))
      | SPeek all base arms d =>
          match apeek (asexec n') (if all then letters26 else letters7) base arms d S (a_cur S) with
          | Ok o => continue o
          | Fail e y => Fail e y
          end
      | SWhileLetOk _ _ | STryElse _ _ _ _ => Fail 9 []
      | SVerifyComplete =>
          if lax then asexec n' r (a_with_cur S (filter is_empty_hd (a_cur S)))
          else if forallb is_empty_hd (a_cur S) then asexec n' r S else Fail 7 (heads (a_cur S))
      | SReturnOk => Ok {| o_next := bot; o_break := bot; o_ret := true |}
      end
    end
  end.

Definition start (R : re) : ast := {| a_cur := hnf_live R; a_seen := []; a_dup := Some false; a_env := [] |}.
End Calls.

(* the layout accepts every word of the expression: the only outcome is ReturnOk *)
Definition includes fp U (n : nat) (L : list stmt) (R : re) : bool :=
  match asexec fp U false n L (start R) with
  | Ok o => negb (is_bot (start R)) && is_bot (o_next o) && is_bot (o_break o)
  | Fail _ _ => false
  end.
(* the layout rejects every word of the expression: no outcome but rejection remains *)
Definition excludes fp U (n : nat) (L : list stmt) (R : re) : bool :=
  match asexec fp U true n L (start R) with
  | Ok o => negb (is_bot (start R)) && is_bot (o_next o) && is_bot (o_break o) && negb (o_ret o)
  | Fail _ _ => false
  end.
