(* Classify/Model.v — reject / return / cover classification:
   swift_message.rs SwiftMessage::{has_reject_codes, has_return_codes, is_cover_message},
   messages/mt103.rs, mt202.rs, mt205.rs (field-72 scans; after fix 286172a), and the processing
   method chosen by plugin/parse.rs. *)

From SwiftMT Require Import Base.Bytes Base.StrOps.
From Coq Require Import Strings.String.

Inductive mty := T103 | T202 | T205 | TOther.

Record cmsg := {
  c_ty : mty;
  c_lines72 : list bytes;        (* lines of field 72 (sender to receiver information); [] when absent *)
  c_mur : option bytes;          (* block 3 tag 108, message user reference *)
  c_flag : option bytes;         (* block 3 tag 119, validation flag *)
  c_seqb_cust : bool;            (* MT202: sequence B has 50a or 59a *)
  c_stp : bool                   (* MT103::is_stp_compliant *)
}.

Section Classify.
(* str::to_uppercase above ASCII (e.g. U+1E97 -> "T" + U+0308): a parameter; exact below 128 *)
Variable upper_hi : N -> list N.

Definition upper_cp (c : N) : list N :=
  if N.ltb c 128 then [if ascii_lower c then (c - 32)%N else c] else upper_hi c.
Definition to_upper_cps (s : bytes) : list N := flat_map upper_cp (chars s).

Definition cps (s : string) : list N := bs s.    (* ASCII literals: code points = bytes *)

Definition mur_has (m : cmsg) (word : string) : bool :=
  match c_mur m with
  | Some mur => contains (cps word) (to_upper_cps mur)
  | None => false
  end.

Definition any_line (m : cmsg) (pats : list string) : bool :=
  existsb (fun line => existsb (fun p => contains (bs p) line) pats) (c_lines72 m).

Definition f72_reject (m : cmsg) : bool :=
  match c_ty m with
  | T103 => any_line m ["/REJT/"%string]
  | T202 | T205 => any_line m ["/REJT/"; "/RJT/"]%string
  | TOther => false
  end.
Definition f72_return (m : cmsg) : bool :=
  match c_ty m with
  | T103 => any_line m ["/RETN/"%string]
  | T202 | T205 => any_line m ["/RETN/"; "/RET/"]%string
  | TOther => false
  end.

(* SwiftMessage::has_reject_codes / has_return_codes / is_cover_message *)
Definition has_reject (m : cmsg) : bool := mur_has m "REJT" || f72_reject m.
Definition has_return (m : cmsg) : bool := mur_has m "RETN" || f72_return m.
Definition is_cover (m : cmsg) : bool :=
  match c_ty m with
  | T202 => c_seqb_cust m
  | T205 => any_line m ["/COV/"; "/COVER/"]%string
  | _ => false
  end.

Definition flag_is (m : cmsg) (w : string) : bool :=
  match c_flag m with Some f => bytes_eqb f (bs w) | None => false end.

Inductive method := MReject | MReturn | MCover | MStp | MNormal.

(* plugin/parse.rs *)
Definition plugin_method (m : cmsg) : method :=
  match c_ty m with
  | T103 => if has_reject m then MReject else if has_return m then MReturn
            else if c_stp m then MStp else MNormal
  | T202 | T205 =>
      if has_reject m || flag_is m "REJT" then MReject
      else if has_return m || flag_is m "RETN" then MReturn
      else if is_cover m || flag_is m "COV" then MCover
      else MNormal
  | TOther => MNormal
  end.

(* ---- specification: the documented code words and places *)
Definition carries (m : cmsg) (slashed plain : string) : bool :=
  existsb (fun line => contains (bs slashed) line) (c_lines72 m) || mur_has m plain.
Definition carries_reject (m : cmsg) : bool := carries m "/REJT/" "REJT".
Definition carries_return (m : cmsg) : bool := carries m "/RETN/" "RETN".

(* the library's additional spellings in MT202/MT205 only (known finding C17-rjt-ret) *)
Definition known_short_codes (m : cmsg) : bool :=
  match c_ty m with
  | T202 | T205 => any_line m ["/RJT/"; "/RET/"]%string
  | _ => false
  end.

Definition supports (t : mty) : bool := match t with TOther => false | _ => true end.

End Classify.
