(* Classify/Facts.v — C17 for the classification model, for all messages and all
   upper-casing oracles. *)

From SwiftMT Require Import Base.Bytes Base.StrOps Classify.Model.
From Coq Require Import Strings.String.

Section Facts.
Variable U : N -> list N.

Lemma existsb_ext' : forall A (f g : A -> bool) l, (forall x, f x = g x) -> existsb f l = existsb g l.
Proof. intros A f g l H. induction l as [|x r IH]; cbn [existsb]; [reflexivity|]. rewrite H, IH. reflexivity. Qed.

Lemma any_line_one : forall m p,
  any_line m [p] = existsb (fun line => contains (bs p) line) (c_lines72 m).
Proof.
  intros m p. unfold any_line. apply existsb_ext'. intro line. cbn [existsb]. apply orb_false_r.
Qed.

Lemma existsb_or : forall A (f g : A -> bool) l, existsb (fun x => f x || g x) l = existsb f l || existsb g l.
Proof.
  intros A f g l. induction l as [|x r IH]; cbn [existsb]; [reflexivity|]. rewrite IH.
  destruct (f x), (g x), (existsb f r), (existsb g r); reflexivity.
Qed.

Lemma any_line_two : forall m p q,
  any_line m [p; q] = any_line m [p] || any_line m [q].
Proof.
  intros m p q. rewrite !any_line_one. unfold any_line. rewrite <- existsb_or.
  apply existsb_ext'. intro line. cbn [existsb]. rewrite orb_false_r. reflexivity.
Qed.

(* a supporting type without the short spellings: reject iff it carries a reject code word *)
Theorem reject_iff : forall m, supports (c_ty m) = true -> known_short_codes m = false ->
  has_reject U m = carries_reject U m.
Proof.
  intros m Hs Hk. unfold has_reject, carries_reject, carries, f72_reject.
  rewrite orb_comm. f_equal.
  destruct (c_ty m) eqn:Et; try discriminate.
  - apply any_line_one.
  - unfold known_short_codes in Hk. rewrite Et in Hk. rewrite any_line_two in Hk |- *.
    apply orb_false_iff in Hk. destruct Hk as [Hk _]. rewrite Hk, orb_false_r. apply any_line_one.
  - unfold known_short_codes in Hk. rewrite Et in Hk. rewrite any_line_two in Hk |- *.
    apply orb_false_iff in Hk. destruct Hk as [Hk _]. rewrite Hk, orb_false_r. apply any_line_one.
Qed.

Theorem return_iff : forall m, supports (c_ty m) = true -> known_short_codes m = false ->
  has_return U m = carries_return U m.
Proof.
  intros m Hs Hk. unfold has_return, carries_return, carries, f72_return.
  rewrite orb_comm. f_equal.
  destruct (c_ty m) eqn:Et; try discriminate.
  - apply any_line_one.
  - unfold known_short_codes in Hk. rewrite Et in Hk. rewrite any_line_two in Hk |- *.
    apply orb_false_iff in Hk. destruct Hk as [_ Hk]. rewrite Hk, orb_false_r. apply any_line_one.
  - unfold known_short_codes in Hk. rewrite Et in Hk. rewrite any_line_two in Hk |- *.
    apply orb_false_iff in Hk. destruct Hk as [_ Hk]. rewrite Hk, orb_false_r. apply any_line_one.
Qed.

(* a message carrying only a return code is not a reject *)
Theorem return_only_not_reject : forall m, supports (c_ty m) = true -> known_short_codes m = false ->
  carries_return U m = true -> carries_reject U m = false -> has_reject U m = false /\ has_return U m = true.
Proof.
  intros m Hs Hk Hr Hj. rewrite (reject_iff m Hs Hk), (return_iff m Hs Hk). split; assumption.
Qed.

(* the same content is classified the same way by every supporting type *)
Definition with_ty (m : cmsg) (t : mty) : cmsg :=
  {| c_ty := t; c_lines72 := c_lines72 m; c_mur := c_mur m; c_flag := c_flag m;
     c_seqb_cust := c_seqb_cust m; c_stp := c_stp m |}.

Theorem same_across_types : forall m t1 t2, supports t1 = true -> supports t2 = true ->
  known_short_codes (with_ty m t1) = false -> known_short_codes (with_ty m t2) = false ->
  has_reject U (with_ty m t1) = has_reject U (with_ty m t2) /\
  has_return U (with_ty m t1) = has_return U (with_ty m t2).
Proof.
  intros m t1 t2 H1 H2 K1 K2.
  rewrite (reject_iff (with_ty m t1) H1 K1), (reject_iff (with_ty m t2) H2 K2),
          (return_iff (with_ty m t1) H1 K1), (return_iff (with_ty m t2) H2 K2).
  split; reflexivity.
Qed.

(* a type that does not support the classification never derives one from field 72 *)
Theorem others_field72_never : forall m, c_ty m = TOther ->
  f72_reject m = false /\ f72_return m = false /\ is_cover m = false /\ plugin_method U m = MNormal.
Proof.
  intros m H. unfold f72_reject, f72_return, is_cover, plugin_method. rewrite H. repeat split; reflexivity.
Qed.

(* the plugin's method is the one the classifications imply *)
Definition method_spec (t : mty) (rej ret cov stp : bool) : method :=
  if rej then MReject else if ret then MReturn else
  match t with
  | T103 => if stp then MStp else MNormal
  | T202 | T205 => if cov then MCover else MNormal
  | TOther => MNormal
  end.

Theorem method_is_implied : forall m, supports (c_ty m) = true ->
  plugin_method U m =
  method_spec (c_ty m)
    (has_reject U m || match c_ty m with T103 => false | _ => flag_is m "REJT" end)
    (has_return U m || match c_ty m with T103 => false | _ => flag_is m "RETN" end)
    (is_cover m || flag_is m "COV") (c_stp m).
Proof.
  intros m Hs. unfold plugin_method, method_spec.
  destruct (c_ty m); try discriminate; rewrite ?orb_false_r; reflexivity.
Qed.

End Facts.
