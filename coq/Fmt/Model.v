(* Fmt/Model.v — the SWIFT field-format language (n!c, nc, [..], n*mx, nd, dates, currency, BIC ...), its
   declarative meaning [Matches] and an executable recogniser [accepts], proved equivalent for all
   formats and all strings.  A content is accepted only as a whole: [Matches f s] speaks about all of s. *)

From Coq Require Import Strings.String ZArith Lia.
From SwiftMT Require Import Base.Bytes Base.StrOps Num.Iso4217.

Inductive cls := Kn | Ka | Kc | Kx | Kz.

Definition in_x (b : N) : bool :=
  ascii_alnum b || existsb (N.eqb b) [47; 45; 63; 58; 40; 41; 46; 44; 39; 43; 32]%N.     (* slash hyphen question-mark colon parentheses full-stop comma apostrophe plus space *)
Definition in_z (b : N) : bool :=
  in_x b || existsb (N.eqb b) [61; 33; 34; 37; 38; 42; 60; 62; 59; 123; 64; 35; 95; 10; 13]%N.   (* equals exclamation double-quote percent ampersand asterisk less greater semicolon left-brace at hash underscore LF CR *)
Definition in_cls (k : cls) (b : N) : bool :=
  match k with
  | Kn => ascii_digit b
  | Ka => ascii_upper b
  | Kc => ascii_upper b || ascii_digit b
  | Kx => in_x b
  | Kz => in_z b
  end.

Inductive atom :=
| AFix (n : nat) (k : cls)        (* n!k *)
| AUpto (n : nat) (k : cls)       (* nk : 1..n characters *)
| ALit (b : bytes)
| AAmount (n : nat)               (* nd : at most n characters, digits with exactly one decimal comma, at least one digit before it *)
| ADate6                          (* YYMMDD, a calendar date *)
| ADate4                          (* MMDD *)
| ATime4                          (* HHMM, HH <= 23, MM <= 59 *)
| ACur                            (* 3!a *)
| ABic                            (* 4!a2!a2!c[3!c] *)
| ASign                           (* + or - *)
| AOffset                         (* HHMM, HH <= 13, MM <= 59 *)
| ANl
| ACodes (l : list bytes)
| ACurAmt (n : nat) (ind : bool).  (* 3!a [1!a D or C when ind] nd, the decimals written not more than the currency allows *)

Definition num2 (a b : N) : N := ((a - 48) * 10 + (b - 48))%N.
Definition comma : N := 44.
Fixpoint count_eq (c : N) (s : bytes) : nat :=
  match s with [] => 0 | b :: r => (if N.eqb b c then 1 else 0) + count_eq c r end.
Fixpoint before (c : N) (s : bytes) : bytes :=
  match s with [] => [] | b :: r => if N.eqb b c then [] else b :: before c r end.

Definition amount_ok (n : nat) (p : bytes) : bool :=
  Nat.leb (List.length p) n && Nat.eqb (count_eq comma p) 1
  && forallb (fun b => ascii_digit b || N.eqb b comma) p
  && Nat.leb 1 (List.length (before comma p)).
Definition decimals_written (p : bytes) : nat := List.length p - S (List.length (before comma p)).

Definition amatch (a : atom) (p : bytes) : bool :=
  match a with
  | ACurAmt n ind =>
      let c := firstn 3 p in
      let rest := skipn 3 p in
      let amt := match rest with
                 | b :: r => if ind && (N.eqb b 68 || N.eqb b 67) then r else rest
                 | [] => rest
                 end in
      Nat.eqb (List.length c) 3 && forallb ascii_upper c && amount_ok n amt && Nat.leb (decimals_written amt) (spec_decimals c)
  | AFix n k => Nat.eqb (List.length p) n && forallb (in_cls k) p
  | AUpto n k => Nat.leb 1 (List.length p) && Nat.leb (List.length p) n && forallb (in_cls k) p
  | ALit b => bytes_eqb p b
  | AAmount n =>
      Nat.leb (List.length p) n && Nat.eqb (count_eq comma p) 1
      && forallb (fun b => ascii_digit b || N.eqb b comma) p
      && Nat.leb 1 (List.length (before comma p))
  | ADate6 =>
      match p with
      | [y1; y2; m1; m2; d1; d2] =>
          forallb ascii_digit p &&
          (let y := num2 y1 y2 in let m := num2 m1 m2 in let d := num2 d1 d2 in
           N.leb 1 m && N.leb m 12 && N.leb 1 d
           && N.leb d (if N.eqb m 2 then (if N.eqb (y mod 4) 0 then 29 else 28)       (* every year of the 1950-2049 window divisible by 4 is a leap year *)
                       else if existsb (N.eqb m) [4; 6; 9; 11]%N then 30 else 31))
      | _ => false
      end
  | ADate4 =>
      match p with
      | [m1; m2; d1; d2] =>
          forallb ascii_digit p &&
          (let m := num2 m1 m2 in let d := num2 d1 d2 in
           N.leb 1 m && N.leb m 12 && N.leb 1 d
           && N.leb d (if N.eqb m 2 then 29 else if existsb (N.eqb m) [4; 6; 9; 11]%N then 30 else 31))
      | _ => false
      end
  | ATime4 =>
      match p with
      | [h1; h2; m1; m2] => forallb ascii_digit p && N.leb (num2 h1 h2) 23 && N.leb (num2 m1 m2) 59
      | _ => false
      end
  | ACur => Nat.eqb (List.length p) 3 && forallb ascii_upper p
  | ABic =>
      (Nat.eqb (List.length p) 8 || Nat.eqb (List.length p) 11)
      && forallb ascii_upper (firstn 6 p) && forallb (in_cls Kc) (skipn 6 p)
  | ASign => match p with [b] => N.eqb b 43 || N.eqb b 45 | _ => false end
  | AOffset =>
      match p with
      | [h1; h2; m1; m2] => forallb ascii_digit p && N.leb (num2 h1 h2) 13 && N.leb (num2 m1 m2) 59
      | _ => false
      end
  | ANl => bytes_eqb p [nl]
  | ACodes l => mem p l
  end.

(* an upper bound on the length of anything an atom matches *)
Definition amax (a : atom) : nat :=
  match a with
  | AFix n _ | AUpto n _ | AAmount n => n
  | ACurAmt n _ => n + 4
  | ALit b => List.length b
  | ADate6 => 6 | ADate4 | ATime4 | AOffset => 4 | ACur => 3 | ABic => 11 | ASign | ANl => 1
  | ACodes l => fold_right Nat.max 0 (map (@List.length N) l)
  end.

Inductive fmt :=
| FEmpty
| FAtom (a : atom)
| FSeq (a b : fmt)
| FAlt (a b : fmt)
| FOpt (a : fmt).

Inductive Matches : fmt -> bytes -> Prop :=
| MEmpty : Matches FEmpty []
| MAtom : forall a p, amatch a p = true -> Matches (FAtom a) p
| MSeq : forall a b p q, Matches a p -> Matches b q -> Matches (FSeq a b) (p ++ q)
| MAltL : forall a b p, Matches a p -> Matches (FAlt a b) p
| MAltR : forall a b p, Matches b p -> Matches (FAlt a b) p
| MOptNone : forall a, Matches (FOpt a) []
| MOptSome : forall a p, Matches a p -> Matches (FOpt a) p.

(* the recogniser: all suffixes that can remain after a prefix matching the format *)
Definition arun_gen (a : atom) (s : bytes) : list bytes :=
  flat_map (fun k => if amatch a (firstn k s) then [skipn k s] else [])
           (seq 0 (S (Nat.min (amax a) (List.length s)))).
(* length of the longest prefix whose characters all satisfy p *)
Fixpoint span_len (p : N -> bool) (s : bytes) : nat :=
  match s with b :: r => if p b then S (span_len p r) else 0 | [] => 0 end.
(* the two character-run atoms are recognised in one pass *)
Definition arun (a : atom) (s : bytes) : list bytes :=
  match a with
  | AUpto n k => map (fun j => skipn j s) (seq 1 (Nat.min n (span_len (in_cls k) s)))
  | AFix n k => if Nat.leb n (span_len (in_cls k) s) then [skipn n s] else []
  | _ => arun_gen a s
  end.

Fixpoint run (f : fmt) (s : bytes) : list bytes :=
  match f with
  | FEmpty => [s]
  | FAtom a => arun a s
  | FSeq a b => flat_map (run b) (run a s)
  | FAlt a b => run a s ++ run b s
  | FOpt a => s :: run a s
  end.

Definition accepts (f : fmt) (s : bytes) : bool :=
  existsb (fun r => match r with [] => true | _ => false end) (run f s).

(* ---- derived formats *)
Fixpoint seq_of (l : list fmt) : fmt := match l with [] => FEmpty | [x] => x | x :: r => FSeq x (seq_of r) end.
(* 1..n repetitions of [line], separated by new lines *)
Fixpoint rep_lines (n : nat) (line : fmt) : fmt :=
  match n with
  | 0 => FEmpty
  | 1 => line
  | S n' => FSeq line (FOpt (FSeq (FAtom ANl) (rep_lines n' line)))
  end.
Definition lines_of (l w : nat) (k : cls) : fmt := rep_lines l (FAtom (AUpto w k)).
(* party identifier line: /1!a/34x | /1!a | /34x *)
Definition slash_b : bytes := [47%N].
Definition party : fmt :=
  FAlt (seq_of [FAtom (ALit slash_b); FAtom (AFix 1 Ka); FAtom (ALit slash_b); FAtom (AUpto 34 Kx)])
       (FAlt (seq_of [FAtom (ALit slash_b); FAtom (AFix 1 Ka)]) (seq_of [FAtom (ALit slash_b); FAtom (AUpto 34 Kx)])).
(* field 20 / 21: "cannot start or end with / or contain //" *)
Definition no_slash_rule (s : bytes) : bool :=
  negb (starts_with slash_b s) && negb (ends_with slash_b s) && negb (contains (slash_b ++ slash_b) s).
(* field 28D: "index must not exceed total" *)
Definition dec_val (s : bytes) : N := fold_left (fun acc b => (10 * acc + (b - 48))%N) s 0%N.
Definition index_le_total_rule (s : bytes) : bool :=
  N.leb (dec_val (before 47 s)) (dec_val (skipn (S (List.length (before 47 s))) s)).
(* documented constraints on top of the format *)
Inductive rule := RNone | RNoSlash | RIndexLeTotal.
Definition rule_holds (r : rule) (s : bytes) : bool :=
  match r with RNone => true | RNoSlash => no_slash_rule s | RIndexLeTotal => index_le_total_rule s end.
