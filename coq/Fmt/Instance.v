(* Fmt/Instance.v — the documented format of every field type: structs from the generated table
   (gen/FieldFormats.v, an image of the hand-written spec/field_formats.json), option families as the union
   of their options' formats. *)

From Coq Require Import Strings.String.
From SwiftMT Require Import Base.Bytes Base.StrOps Fmt.Model Fmt.Facts.
From SwiftMT Require Export gen.FieldFormats.
From SwiftMT Require gen.Families.

From SwiftMT Require Export Fmt.Defs.

Lemma gen_every_type_has_format : every_type_has_format = true.
Proof. vm_compute. reflexivity. Qed.

Lemma struct_accepts_spec : forall T f r s, lookup T field_formats = Some (f, r) ->
  (struct_accepts T s = Some true <-> Matches f s /\ rule_holds r s = true).
Proof.
  intros T f r s H. unfold struct_accepts. rewrite H. split.
  - intro E. injection E as E'. apply andb_true_iff in E'. destruct E' as [A B]. split; [apply accepts_spec; exact A | exact B].
  - intros [A B]. f_equal. apply andb_true_iff. split; [apply accepts_spec; exact A | exact B].
Qed.
