(* Fmt/Defs.v — definitions of Fmt/Instance.v (the extracted runner depends on this file only) *)

From Coq Require Import Strings.String.
From SwiftMT Require Import Base.Bytes Base.StrOps Fmt.Model Fmt.Facts.
From SwiftMT Require Export gen.FieldFormats.
From SwiftMT Require gen.Families.

Definition struct_accepts (T s : bytes) : option bool :=
  match lookup T field_formats with
  | Some (f, r) => Some (accepts f s && rule_holds r s)
  | None => None
  end.

(* T::parse(content) should succeed exactly when this is Some true *)
Definition format_accepts (T s : bytes) : option bool :=
  match struct_accepts T s with
  | Some b => Some b
  | None =>
      match lookup T family_options with
      | Some opts => Some (existsb (fun p => match struct_accepts p s with Some b => b | None => false end) opts)
      | None => None
      end
  end.

(* every field type the library has (payload structs with a printed tag, and option families) has a documented format here *)
Definition all_field_types : list bytes :=
  map fst gen.Families.payload_tags ++ map Family.Model.f_name gen.Families.families.
Definition every_type_has_format : bool :=
  forallb (fun T => match format_accepts T [] with Some _ => true | None => false end) all_field_types
  && forallb (fun p => forallb (fun o => match lookup o field_formats with Some _ => true | None => false end) (snd p)) family_options.
