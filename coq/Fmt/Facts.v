(* Fmt/Facts.v — the recogniser decides the declarative meaning, for every format and every string. *)

From Coq Require Import Strings.String ZArith Lia Bool.
From SwiftMT Require Import Base.Bytes Base.StrOps Fmt.Model.

Lemma bytes_eqb_len : forall a b, bytes_eqb a b = true -> List.length a = List.length b.
Proof. intros a b H. apply bytes_eqb_eq in H. subst. reflexivity. Qed.

Lemma mem_len_le : forall p l, mem p l = true -> List.length p <= fold_right Nat.max 0 (map (@List.length N) l).
Proof.
  intros p l H. apply mem_in in H. induction l as [|x r IH]; [destruct H|].
  cbn [map fold_right]. destruct H as [H|H]; [subst; apply Nat.le_max_l|].
  etransitivity; [apply IH; exact H | apply Nat.le_max_r].
Qed.

(* whatever an atom matches is no longer than amax *)
Lemma amatch_len : forall a p, amatch a p = true -> List.length p <= amax a.
Proof.
  intros a p H. destruct a; cbn [amatch amax] in *.
  - apply andb_true_iff in H. destruct H as [H _]. apply Nat.eqb_eq in H. lia.
  - apply andb_true_iff in H. destruct H as [H _]. apply andb_true_iff in H. destruct H as [_ H]. apply Nat.leb_le in H. exact H.
  - apply bytes_eqb_len in H. lia.
  - repeat (apply andb_true_iff in H; destruct H as [H ?]). apply Nat.leb_le in H. exact H.
  - destruct p as [|? [|? [|? [|? [|? [|? [|? ?]]]]]]]; try discriminate; cbn; lia.
  - destruct p as [|? [|? [|? [|? [|? ?]]]]]; try discriminate; cbn; lia.
  - destruct p as [|? [|? [|? [|? [|? ?]]]]]; try discriminate; cbn; lia.
  - apply andb_true_iff in H. destruct H as [H _]. apply Nat.eqb_eq in H. lia.
  - repeat (apply andb_true_iff in H; destruct H as [H ?]). apply orb_true_iff in H. destruct H as [H|H]; apply Nat.eqb_eq in H; lia.
  - destruct p as [|? [|? ?]]; try discriminate; cbn; lia.
  - destruct p as [|? [|? [|? [|? [|? ?]]]]]; try discriminate; cbn; lia.
  - apply bytes_eqb_len in H. cbn in H. lia.
  - apply mem_len_le. exact H.
  - repeat (apply andb_true_iff in H; destruct H as [H ?]).
    match goal with A : amount_ok n _ = true |- _ => unfold amount_ok in A; repeat (apply andb_true_iff in A; destruct A as [A ?]); apply Nat.leb_le in A end.
    apply Nat.eqb_eq in H. rewrite <- (firstn_skipn 3 p), app_length, H.
    destruct (skipn 3 p) as [|b r] eqn:S; [cbn; lia|].
    destruct (ind && (N.eqb b 68 || N.eqb b 67)); cbn [List.length] in *; lia.
Qed.

Lemma firstn_app_exact : forall (A : Type) (p r : list A), firstn (List.length p) (p ++ r) = p.
Proof. intros A p r. rewrite firstn_app, Nat.sub_diag, firstn_all. cbn. apply app_nil_r. Qed.
Lemma skipn_app_exact : forall (A : Type) (p r : list A), skipn (List.length p) (p ++ r) = r.
Proof. intros A p r. rewrite skipn_app, Nat.sub_diag, skipn_all. reflexivity. Qed.

Lemma arun_gen_spec : forall a s r, In r (arun_gen a s) <-> exists p, s = p ++ r /\ amatch a p = true.
Proof.
  intros a s r. unfold arun_gen. rewrite in_flat_map. split.
  - intros [k [Hk Hin]]. destruct (amatch a (firstn k s)) eqn:E; [|destruct Hin].
    destruct Hin as [Hin|[]]. subst r. exists (firstn k s). split; [symmetry; apply firstn_skipn | exact E].
  - intros [p [Hs Hm]]. exists (List.length p). split.
    + apply in_seq. pose proof (amatch_len a p Hm) as L. subst s. rewrite app_length. lia.
    + subst s. rewrite firstn_app_exact, Hm, skipn_app_exact. left. reflexivity.
Qed.

Lemma span_len_spec : forall p s j, j <= span_len p s <-> j <= List.length s /\ forallb p (firstn j s) = true.
Proof.
  intros p s. induction s as [|b r IH]; intro j; cbn [span_len List.length].
  - split; [intro H; assert (j = 0) by lia; subst; split; [lia|reflexivity] | intros [H _]; lia].
  - destruct j as [|j]; [split; [intros _; split; [lia|reflexivity] | intros _; lia]|].
    cbn [firstn forallb]. destruct (p b); cbn [andb].
    + rewrite <- Nat.succ_le_mono. rewrite IH. split; intros [A B]; split; try lia; exact B.
    + split; [intro H; lia | intros [_ H]; discriminate].
Qed.

Lemma arun_spec : forall a s r, In r (arun a s) <-> exists p, s = p ++ r /\ amatch a p = true.
Proof.
  intros a s r. destruct a; try apply arun_gen_spec.
  - (* AFix *) cbn [arun amatch]. destruct (Nat.leb n (span_len (in_cls k) s)) eqn:L.
    + apply Nat.leb_le in L. apply span_len_spec in L. destruct L as [L1 L2]. split.
      * intros [H|[]]. subst r. exists (firstn n s). split; [symmetry; apply firstn_skipn|].
        rewrite firstn_length, Nat.min_l by exact L1. rewrite Nat.eqb_refl, L2. reflexivity.
      * intros [p [Hs Hm]]. apply andb_true_iff in Hm. destruct Hm as [Hn _]. apply Nat.eqb_eq in Hn. subst n s.
        left. rewrite skipn_app_exact. reflexivity.
    + split; [intros []|]. intros [p [Hs Hm]]. apply andb_true_iff in Hm. destruct Hm as [Hn Hc]. apply Nat.eqb_eq in Hn.
      apply Nat.leb_gt in L. exfalso. assert (n <= span_len (in_cls k) s); [|lia].
      apply span_len_spec. subst n s. rewrite app_length. split; [lia|]. rewrite firstn_app_exact. exact Hc.
  - (* AUpto *) cbn [arun amatch]. rewrite in_map_iff. split.
    + intros [j [Hr Hj]]. apply in_seq in Hj. subst r.
      assert (Hle : j <= span_len (in_cls k) s) by lia. apply span_len_spec in Hle. destruct Hle as [L1 L2].
      exists (firstn j s). split; [symmetry; apply firstn_skipn|].
      rewrite firstn_length, Nat.min_l by exact L1. rewrite L2, andb_true_r. apply andb_true_iff. split; [apply Nat.leb_le; lia | apply Nat.leb_le; lia].
    + intros [p [Hs Hm]]. apply andb_true_iff in Hm. destruct Hm as [Hm Hc]. apply andb_true_iff in Hm. destruct Hm as [H1 H2].
      apply Nat.leb_le in H1. apply Nat.leb_le in H2. exists (List.length p). split; [subst s; apply skipn_app_exact|].
      apply in_seq. assert (List.length p <= span_len (in_cls k) s).
      { apply span_len_spec. subst s. rewrite app_length. split; [lia|]. rewrite firstn_app_exact. exact Hc. }
      lia.
Qed.

Theorem run_spec : forall f s r, In r (run f s) <-> exists p, s = p ++ r /\ Matches f p.
Proof.
  induction f as [|a|a IHa b IHb|a IHa b IHb|a IHa]; intros s r; cbn [run].
  - split.
    + intros [H|[]]. subst. exists []. split; [reflexivity | constructor].
    + intros [p [Hs Hm]]. inversion Hm; subst. left. reflexivity.
  - rewrite arun_spec. split.
    + intros [p [Hs Hm]]. exists p. split; [exact Hs | constructor; exact Hm].
    + intros [p [Hs Hm]]. inversion Hm; subst. exists p. split; [reflexivity | assumption].
  - rewrite in_flat_map. split.
    + intros [m [Hm Hr]]. apply IHa in Hm. apply IHb in Hr. destruct Hm as [p [Hs Hp]]. destruct Hr as [q [Hm2 Hq]].
      exists (p ++ q). split; [subst; rewrite app_assoc; reflexivity | constructor; assumption].
    + intros [pq [Hs Hm]]. inversion Hm; subst. exists (q ++ r). split.
      * apply IHa. exists p. split; [rewrite app_assoc; reflexivity | assumption].
      * apply IHb. exists q. split; [reflexivity | assumption].
  - rewrite in_app_iff. split.
    + intros [H|H]; [apply IHa in H | apply IHb in H]; destruct H as [p [Hs Hp]]; exists p; (split; [exact Hs|]);
        [apply MAltL | apply MAltR]; assumption.
    + intros [p [Hs Hm]]. inversion Hm; subst; [left; apply IHa | right; apply IHb]; exists p; split; auto.
  - cbn [In]. split.
    + intros [H|H].
      * subst. exists []. split; [reflexivity | constructor].
      * apply IHa in H. destruct H as [p [Hs Hp]]. exists p. split; [exact Hs | apply MOptSome; exact Hp].
    + intros [p [Hs Hm]]. inversion Hm; subst; [left; reflexivity | right; apply IHa; exists p; split; auto].
Qed.

(* a content is accepted exactly when the WHOLE content has the documented format *)
Theorem accepts_spec : forall f s, accepts f s = true <-> Matches f s.
Proof.
  intros f s. unfold accepts. rewrite existsb_exists. split.
  - intros [r [Hin Hr]]. destruct r; [|discriminate]. apply run_spec in Hin. destruct Hin as [p [Hs Hp]].
    rewrite app_nil_r in Hs. subst. exact Hp.
  - intro H. exists []. split; [|reflexivity]. apply run_spec. exists s. split; [symmetry; apply app_nil_r | exact H].
Qed.

(* nothing ignored, nothing truncated: an accepted content has no proper prefix that is "the part read" with a rest dropped —
   formally, if the content is p ++ rest and only p has the format while p ++ rest does not, it is rejected *)
Corollary rejects_unless_whole : forall f p rest, Matches f p -> ~ Matches f (p ++ rest) -> accepts f (p ++ rest) = false.
Proof.
  intros f p rest _ Hn. destruct (accepts f (p ++ rest)) eqn:E; [|reflexivity].
  exfalso. apply Hn. apply accepts_spec. exact E.
Qed.
