(* Family/Defs.v — definitions of Family/Instance.v (the extracted runner depends on this file only) *)

From Coq Require Import Strings.String.
From SwiftMT Require Import Base.Bytes Engine.Layout Family.Model Family.Facts.
From SwiftMT Require Export gen.Families.
From SwiftMT Require gen.Layouts.

Definition ptag (p : bytes) : bytes := match lookup p payload_tags with Some t => t | None => [] end.
Definition resolve (n : bytes) : bytes := match lookup n field_aliases with Some y => y | None => n end.
Definition family_named (n : bytes) : option family :=
  find (fun f => bytes_eqb (f_name f) (resolve n)) families.

(* every (family, base tag) a layout reads with parse_variant_field / parse_optional_variant_field *)
Fixpoint stmt_fams (s : stmt) : list (bytes * bytes) :=
  let fix go (l : list stmt) : list (bytes * bytes) :=
    match l with [] => [] | x :: r => stmt_fams x ++ go r end in
  match s with
  | SReqV fam base _ | SOptV fam base _ => [(fam, base)]
  | SWhile _ body => go body
  | SIf _ th el => go th ++ go el
  | SPeek _ _ arms default =>
      (fix ga (a : list (list bytes * list stmt)) := match a with [] => [] | (_, b) :: r => go b ++ ga r end) arms ++ go default
  | SWhileLetOk call body => stmt_fams call ++ go body
  | STryElse call _ th el => stmt_fams call ++ go th ++ go el
  | _ => []
  end.

Definition positions : list (bytes * (bytes * bytes)) :=
  flat_map (fun p => map (fun fb => (fst p, fb)) (flat_map stmt_fams (snd p))) gen.Layouts.all_layouts.

Definition position_ok (x : bytes * (bytes * bytes)) : bool :=
  match family_named (fst (snd x)) with
  | Some f => wf_family ptag f (snd (snd x)) && heur_on_input f
  | None => false
  end.

(* the positions that do NOT meet the condition, listed (empty = all fine) *)
Definition bad_positions : list (bytes * (bytes * bytes)) := filter (fun x => negb (position_ok x)) positions.
