(* Family/Facts.v — what the letter of a tag decides, for any well-formed family. *)

From Coq Require Import Strings.String.
From SwiftMT Require Import Base.Bytes Family.Model.

Section Facts.
Variable value : Type.
Variable pparse : bytes -> bytes -> option value.
Variable guard : nat -> bytes -> bool.
Variable altarg : bytes -> bytes.
Variable ptag : bytes -> bytes.

Notation heval := (heval value pparse guard altarg).
Notation pwv_core := (pwv_core value pparse).
Notation parse_with_variant := (parse_with_variant value pparse guard altarg).
Notation parse_named := (parse_named value pparse guard altarg ptag).
Notation named_core := (named_core value pparse ptag).
Notation wf_family := (wf_family ptag).

(* every value the heuristic returns comes from one of its sites: the payload parser named
   there accepted the argument passed there *)
Lemma heval_site : forall h c v x, heval h c = Some (v, x) ->
  exists p ai, In (p, v, ai) (heur_sites h) /\ pparse p (harg altarg ai c) = Some x.
Proof.
  induction h as [g p v0 ai k IH | p v0 ai | g a IHa b IHb | ]; cbn [Model.heval heur_sites]; intros c v x H.
  - destruct (gv guard g c).
    + destruct (pparse p (harg altarg ai c)) as [y|] eqn:E.
      * inversion H; subst. exists p, ai. split; [left; reflexivity | exact E].
      * destruct (IH c v x H) as [p' [ai' [Hin Hp]]]. exists p', ai'. split; [right; exact Hin | exact Hp].
    + destruct (IH c v x H) as [p' [ai' [Hin Hp]]]. exists p', ai'. split; [right; exact Hin | exact Hp].
  - destruct (pparse p (harg altarg ai c)) as [y|] eqn:E; [|discriminate].
    inversion H; subst. exists p, ai. split; [left; reflexivity | exact E].
  - destruct (guard g c).
    + destruct (IHa c v x H) as [p' [ai' [Hin Hp]]]. exists p', ai'. split; [apply in_or_app; left; exact Hin | exact Hp].
    + destruct (IHb c v x H) as [p' [ai' [Hin Hp]]]. exists p', ai'. split; [apply in_or_app; right; exact Hin | exact Hp].
  - discriminate.
Qed.

Lemma find_arm_in : forall l arms p v, find_arm l arms = Some (p, v) -> In (l, p, v) arms.
Proof.
  induction arms as [|[[pat p'] v'] r IH]; cbn [find_arm]; intros p v H; [discriminate|].
  destruct (opt_bytes_eqb l pat) eqn:E.
  - apply opt_bytes_eqb_eq in E. inversion H; subst. left. reflexivity.
  - right. apply IH. exact H.
Qed.

Lemma find_arm_nodup : forall l arms p v,
  nodup_pats (map (fun a => fst (fst a)) arms) = true -> In (l, p, v) arms -> find_arm l arms = Some (p, v).
Proof.
  induction arms as [|[[pat p'] v'] r IH]; cbn [find_arm map nodup_pats fst]; intros p v ND HI; [destruct HI|].
  apply andb_true_iff in ND. destruct ND as [Hx ND].
  destruct HI as [HI|HI].
  - inversion HI; subst. assert (E : opt_bytes_eqb l l = true) by (apply opt_bytes_eqb_eq; reflexivity).
    rewrite E. reflexivity.
  - destruct (opt_bytes_eqb l pat) eqn:E.
    + apply opt_bytes_eqb_eq in E. subst pat. exfalso.
      apply negb_true_iff in Hx.
      assert (X : existsb (opt_bytes_eqb l) (map (fun a => fst (fst a)) r) = true).
      { apply existsb_exists. exists l. split.
        - apply in_map_iff. exists (l, p, v). split; [reflexivity | exact HI].
        - apply opt_bytes_eqb_eq. reflexivity. }
      rewrite X in Hx. discriminate.
    + apply IH; assumption.
Qed.

Lemma find_arm_none : forall l arms p v, find_arm l arms = None -> ~ In (l, p, v) arms.
Proof.
  induction arms as [|[[pat p'] v'] r IH]; cbn [find_arm]; intros p v H HI; [destruct HI|].
  destruct (opt_bytes_eqb l pat) eqn:E; [discriminate|].
  destruct HI as [HI|HI].
  - inversion HI; subst. assert (X : opt_bytes_eqb l l = true) by (apply opt_bytes_eqb_eq; reflexivity).
    rewrite X in E. discriminate.
  - exact (IH p v H HI).
Qed.

Lemma variant_pairb_spec : forall f p v, variant_pairb f p v = true -> payload_of_variant f v = Some p.
Proof.
  unfold variant_pairb. intros f p v H. destruct (payload_of_variant f v) as [p'|]; [|discriminate].
  apply bytes_eqb_eq in H. subst. reflexivity.
Qed.

(* T2: whatever the heuristics do, an accepted value prints under the tag it was read from *)
Lemma named_tag : forall f base l c v x, parse_named f base l c = Some (v, x) -> vtag ptag f v = base ++ l.
Proof.
  unfold Model.parse_named, Model.named_core. intros f base l c v x H.
  destruct (pwv_core f (letter_opt l) c _) as [[v' x']|]; [|discriminate].
  destruct (bytes_eqb (vtag ptag f v') (base ++ l)) eqn:E; [|discriminate].
  inversion H; subst. apply bytes_eqb_eq. exact E.
Qed.

Record wf_parts (f : family) (base : bytes) : Prop := {
  wp_pwv : f_has_pwv f = true;
  wp_arms : forall a, In a (f_arms f) -> arm_okb ptag f base a = true;
  wp_nodup : nodup_pats (map (fun a => fst (fst a)) (f_arms f)) = true;
  wp_sites : forall s, In s (heur_sites (f_heur f)) -> variant_pairb f (fst (fst s)) (snd (fst s)) = true;
  wp_cover : forall x, In x (f_variants f) -> existsb (fun a => bytes_eqb (snd a) (vname_of x)) (f_arms f) = true
}.

Lemma wf_family_parts : forall f base, wf_family f base = true -> wf_parts f base.
Proof.
  intros f base H. unfold Model.wf_family in H.
  do 6 (apply andb_true_iff in H; destruct H as [H ?]).
  constructor.
  - assumption.
  - apply forallb_forall. assumption.
  - assumption.
  - apply forallb_forall. assumption.
  - apply forallb_forall. assumption.
Qed.

Lemma arm_ok_tag : forall f base pat p v, arm_okb ptag f base (pat, p, v) = true ->
  payload_of_variant f v = Some p /\ ptag p = base ++ match pat with Some l => l | None => [] end /\ pat <> Some [].
Proof.
  intros f base pat p v H. unfold arm_okb in H.
  apply andb_true_iff in H. destruct H as [H H3]. apply andb_true_iff in H. destruct H as [H1 H2].
  split; [apply variant_pairb_spec; exact H1|]. split; [apply bytes_eqb_eq; exact H2|].
  intro E. subst pat. discriminate.
Qed.

Lemma letter_opt_letter : forall pat l, pat <> Some [] -> pat = letter_opt l ->
  match pat with Some x => x | None => [] end = l.
Proof.
  intros pat l Hne E. destruct l as [|b r]; cbn [letter_opt] in E; subst pat; reflexivity.
Qed.

(* T3: a letter of the family selects exactly its payload parser: accepted iff that parser accepts,
   with that parser's value, under that variant *)
Lemma named_own_letter : forall f base l c p v,
  wf_family f base = true -> In (letter_opt l, p, v) (f_arms f) ->
  parse_named f base l c = match pparse p c with Some x => Some (v, x) | None => None end.
Proof.
  intros f base l c p v WF HI. destruct (wf_family_parts f base WF) as [Hpwv Harms Hnd _ _].
  unfold Model.parse_named, Model.named_core, Model.pwv_core. rewrite Hpwv.
  rewrite (find_arm_nodup _ _ _ _ Hnd HI).
  destruct (pparse p c) as [x|]; [|reflexivity].
  destruct (arm_ok_tag f base _ p v (Harms _ HI)) as [Hp [Ht Hne]].
  pose proof (letter_opt_letter (letter_opt l) l Hne eq_refl) as EL.
  assert (Ht' : ptag p = base ++ l) by (rewrite Ht; f_equal; exact EL).
  unfold vtag. rewrite Hp, Ht'.
  rewrite bytes_eqb_refl. reflexivity.
Qed.

(* T4: a letter the family does not have (or no letter when it has no letter-less option) is rejected,
   whatever the content and whatever the fallback heuristic would have made of it *)
Lemma named_foreign_letter : forall f base l c,
  wf_family f base = true -> find_arm (letter_opt l) (f_arms f) = None ->
  parse_named f base l c = None.
Proof.
  intros f base l c WF Hnone. destruct (wf_family_parts f base WF) as [Hpwv Harms Hnd Hsites Hcover].
  unfold Model.parse_named, Model.named_core, Model.pwv_core. rewrite Hpwv, Hnone.
  destruct (f_fallback_heur f); [|reflexivity].
  destruct (heval (f_heur f) c) as [[v x]|] eqn:EH; [|reflexivity].
  destruct (heval_site _ _ _ _ EH) as [p [ai [Hin _]]].
  pose proof (variant_pairb_spec _ _ _ (Hsites _ Hin)) as Hp. cbn [fst snd] in Hp.
  (* v is a variant, so it has an arm *)
  assert (Hv : exists x0, In x0 (f_variants f) /\ vname_of x0 = v).
  { unfold payload_of_variant in Hp. apply lookup_some_in in Hp. apply in_map_iff in Hp.
    destruct Hp as [x0 [E Hx0]]. exists x0. split; [exact Hx0|]. inversion E. reflexivity. }
  destruct Hv as [x0 [Hx0 Ev]].
  pose proof (Hcover _ Hx0) as Hc. apply existsb_exists in Hc. destruct Hc as [[[pat p'] v'] [Ha Eb]].
  cbn [snd] in Eb. apply bytes_eqb_eq in Eb. rewrite Ev in Eb. subst v'.
  destruct (arm_ok_tag f base pat p' v (Harms _ Ha)) as [Hp' [Ht Hne]].
  rewrite Hp in Hp'. inversion Hp'; subst p'.
  unfold vtag. rewrite Hp, Ht.
  destruct (bytes_eqb (base ++ match pat with Some l0 => l0 | None => [] end) (base ++ l)) eqn:E; [|reflexivity].
  exfalso. apply bytes_eqb_eq in E. apply app_inv_head in E.
  assert (Epat : pat = letter_opt l).
  { destruct pat as [l0|]; cbn in E.
    - subst l0. destruct l as [|b r]; [exfalso; apply Hne; reflexivity | reflexivity].
    - subst l. reflexivity. }
  subst pat. exact (find_arm_none _ _ _ _ Hnone Ha).
Qed.

(* T1: the letter-less heuristic only returns a variant whose own parser accepted the content *)
Lemma heuristic_sound : forall f base c v x,
  wf_family f base = true -> heur_on_input f = true ->
  heval (f_heur f) c = Some (v, x) ->
  exists p, payload_of_variant f v = Some p /\ pparse p c = Some x.
Proof.
  intros f base c v x WF HI EH. destruct (wf_family_parts f base WF) as [_ _ _ Hsites _].
  destruct (heval_site _ _ _ _ EH) as [p [ai [Hin Hp]]].
  exists p. split.
  - exact (variant_pairb_spec _ _ _ (Hsites _ Hin)).
  - unfold heur_on_input in HI. rewrite forallb_forall in HI. specialize (HI _ Hin). cbn [snd] in HI.
    subst ai. exact Hp.
Qed.

(* ... and re-reading it under its own letter gives the same value, provided the payload's printed
   content is re-accepted by the payload parser with the same value (field-level round trip, C02) *)
Lemma heuristic_reparse : forall f base v x p c',
  wf_family f base = true ->
  payload_of_variant f v = Some p -> In (letter_opt (skipn (List.length base) (ptag p)), p, v) (f_arms f) ->
  pparse p c' = Some x ->
  parse_named f base (skipn (List.length base) (ptag p)) c' = Some (v, x).
Proof.
  intros f base v x p c' WF Hp HI Hre.
  rewrite (named_own_letter f base _ c' p v WF HI). rewrite Hre. reflexivity.
Qed.

End Facts.
