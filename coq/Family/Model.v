(* Family/Model.v — multi-option field families (property C14).

   A family is a Rust enum over payload types (Field59 = A(Field59A) | F(Field59F) | NoOption(..)).
   The regenerated gen/Families.v gives, per enum: its variants, the arms of parse_with_variant, the
   control flow of the letter-less heuristic `parse` (guards opaque), and whether printing delegates
   to the payload.  This file gives those tables their meaning:

     heval              the heuristic `parse`
     parse_with_variant T::parse_with_variant(content, letter, _)
     parse_named        MessageParser::parse_named_variant (parser/message_parser.rs): the letter of the
                        tag is passed (None for a tag without letter) and the value must print under
                        the tag it was read from.

   Payload parsers, the heuristics' guards and the payloads' printed tags are parameters. *)

From Coq Require Import Strings.String.
From SwiftMT Require Import Base.Bytes.

Inductive heur :=
| HTry (g : nat) (payload vname : bytes) (arg_input : bool) (k : heur)
    (* if guard_g && let Ok(x) = payload::parse(arg) { return Ok(E::vname(x)) }  ; k      (g = 0: no guard) *)
| HMust (payload vname : bytes) (arg_input : bool)
    (* Ok(E::vname(payload::parse(arg)?)) *)
| HIf (g : nat) (a b : heur)
| HFail.

Record family := {
  f_name : bytes;
  f_variants : list (bytes * bytes * bytes);        (* variant name, payload type, serde name *)
  f_has_pwv : bool;                                 (* the enum overrides parse_with_variant *)
  f_fallback_heur : bool;                           (* its `_` arm is Self::parse(value) (true) or an error (false) *)
  f_arms : list (option bytes * bytes * bytes);     (* pattern (None / Some letter), payload type, variant name *)
  f_heur : heur;
  f_print_delegates : bool                          (* to_swift_string: E::V(field) => field.to_swift_string() for every V *)
}.

Definition vname_of (x : bytes * bytes * bytes) : bytes := fst (fst x).
Definition payload_of_variant (f : family) (v : bytes) : option bytes :=
  lookup v (map (fun x => (vname_of x, snd (fst x))) (f_variants f)).

Definition opt_bytes_eqb (a b : option bytes) : bool :=
  match a, b with
  | None, None => true
  | Some x, Some y => bytes_eqb x y
  | _, _ => false
  end.

Lemma opt_bytes_eqb_eq : forall a b, opt_bytes_eqb a b = true <-> a = b.
Proof.
  intros [a|] [b|]; cbn [opt_bytes_eqb]; split; intro H; try discriminate; try reflexivity.
  - apply bytes_eqb_eq in H. subst. reflexivity.
  - inversion H; subst. apply bytes_eqb_refl.
Qed.

Fixpoint find_arm (l : option bytes) (arms : list (option bytes * bytes * bytes)) : option (bytes * bytes) :=
  match arms with
  | [] => None
  | (pat, p, v) :: r => if opt_bytes_eqb l pat then Some (p, v) else find_arm l r
  end.

Section Sem.
Variable value : Type.
Variable pparse : bytes -> bytes -> option value.    (* payload type, content *)
Variable guard : nat -> bytes -> bool.
Variable altarg : bytes -> bytes.                     (* the argument a heuristic passes when it is not `input` *)
Variable ptag : bytes -> bytes.                       (* tag printed by a payload type *)

Definition fval : Type := bytes * value.             (* variant name, payload value *)

Definition gv (g : nat) (c : bytes) : bool := match g with 0 => true | _ => guard g c end.
Definition harg (ai : bool) (c : bytes) : bytes := if ai then c else altarg c.

Fixpoint heval (h : heur) (c : bytes) : option fval :=
  match h with
  | HTry g p v ai k =>
      if gv g c then
        match pparse p (harg ai c) with
        | Some x => Some (v, x)
        | None => heval k c
        end
      else heval k c
  | HMust p v ai => match pparse p (harg ai c) with Some x => Some (v, x) | None => None end
  | HIf g a b => if guard g c then heval a c else heval b c
  | HFail => None
  end.

(* the core of parse_with_variant, over the result [hres] of the heuristic *)
Definition pwv_core (f : family) (l : option bytes) (c : bytes) (hres : option fval) : option fval :=
  if f_has_pwv f then
    match find_arm l (f_arms f) with
    | Some (p, v) => match pparse p c with Some x => Some (v, x) | None => None end
    | None => if f_fallback_heur f then hres else None
    end
  else hres.

Definition parse_with_variant (f : family) (l : option bytes) (c : bytes) : option fval :=
  pwv_core f l c (heval (f_heur f) c).

Definition vtag (f : family) (v : bytes) : bytes :=
  match payload_of_variant f v with Some p => ptag p | None => [] end.

Definition letter_opt (l : bytes) : option bytes := match l with [] => None | _ => Some l end.

Definition named_core (f : family) (base l c : bytes) (hres : option fval) : option fval :=
  match pwv_core f (letter_opt l) c hres with
  | Some (v, x) => if bytes_eqb (vtag f v) (base ++ l) then Some (v, x) else None
  | None => None
  end.

Definition parse_named (f : family) (base l c : bytes) : option fval :=
  named_core f base l c (heval (f_heur f) c).

(* ---- well-formedness of a family for a base tag (decided on the regenerated tables) *)

Fixpoint heur_sites (h : heur) : list (bytes * bytes * bool) :=
  match h with
  | HTry _ p v ai k => (p, v, ai) :: heur_sites k
  | HMust p v ai => [(p, v, ai)]
  | HIf _ a b => heur_sites a ++ heur_sites b
  | HFail => []
  end.

Definition variant_pairb (f : family) (p v : bytes) : bool :=
  match payload_of_variant f v with Some p' => bytes_eqb p p' | None => false end.

Definition arm_okb (f : family) (base : bytes) (a : option bytes * bytes * bytes) : bool :=
  let '(pat, p, v) := a in
  variant_pairb f p v
  && bytes_eqb (ptag p) (base ++ match pat with Some l => l | None => [] end)
  && match pat with Some [] => false | _ => true end.

Fixpoint nodup_pats (l : list (option bytes)) : bool :=
  match l with
  | [] => true
  | x :: r => negb (existsb (opt_bytes_eqb x) r) && nodup_pats r
  end.

Definition wf_family (f : family) (base : bytes) : bool :=
  f_print_delegates f
  && f_has_pwv f
  && forallb (arm_okb f base) (f_arms f)
  && nodup_pats (map (fun a => fst (fst a)) (f_arms f))
  && nodupb (map vname_of (f_variants f))
  && forallb (fun s => variant_pairb f (fst (fst s)) (snd (fst s))) (heur_sites (f_heur f))
  && forallb (fun x => existsb (fun a => bytes_eqb (snd a) (vname_of x)) (f_arms f)) (f_variants f).

(* heuristics whose every site passes `input` itself *)
Definition heur_on_input (f : family) : bool := forallb (fun s => snd s) (heur_sites (f_heur f)).

End Sem.
