(* Family/Instance.v — the regenerated families (gen/Families.v) at every position where a
   regenerated layout (gen/Layouts.v) reads a field with option detection. *)

From Coq Require Import Strings.String.
From SwiftMT Require Import Base.Bytes Engine.Layout Family.Model Family.Facts.
From SwiftMT Require Export gen.Families.
From SwiftMT Require gen.Layouts.

From SwiftMT Require Export Family.Defs.

Lemma gen_positions_ok : bad_positions = [].
Proof. vm_compute. reflexivity. Qed.

Lemma filter_nil_all : forall (A : Type) (p : A -> bool) l, filter p l = [] -> forall x, In x l -> p x = false.
Proof.
  intros A p l. induction l as [|y r IH]; cbn [filter]; intros H x HI; [destruct HI|].
  destruct (p y) eqn:E; [discriminate|].
  destruct HI as [HI|HI]; [subst; exact E | exact (IH H x HI)].
Qed.

Lemma position_wf : forall T fam base, In (T, (fam, base)) positions ->
  exists f, family_named fam = Some f /\ wf_family ptag f base = true /\ heur_on_input f = true.
Proof.
  intros T fam base HI.
  pose proof (filter_nil_all _ _ _ gen_positions_ok _ HI) as H. apply negb_false_iff in H.
  unfold position_ok in H. cbn [fst snd] in H.
  destruct (family_named fam) as [f|]; [|discriminate].
  apply andb_true_iff in H. destruct H as [H1 H2]. exists f. repeat split; assumption.
Qed.

(* non-vacuity: there are positions, of several families *)
Lemma positions_nonempty : (80 <= List.length positions)%nat.
Proof. vm_compute. repeat constructor. Qed.
