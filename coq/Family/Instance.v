(* Family/Instance.v — the regenerated families (gen/Families.v) at every position where a
   regenerated layout (gen/Layouts.v) reads a field with option detection. *)

From Coq Require Import Strings.String.
From SwiftMT Require Import Base.Bytes Engine.Layout Family.Model Family.Facts.
From SwiftMT Require Export gen.Families.
From SwiftMT Require gen.Layouts.

Definition ptag (p : bytes) : bytes := match lookup p payload_tags with Some t => t | None => [] end.
Definition resolve (n : bytes) : bytes := match lookup n field_aliases with Some y => y | None => n end.
Definition family_named (n : bytes) : option family :=
  find (fun f => bytes_eqb (f_name f) (resolve n)) families.

(* every (family, base tag) a layout reads with parse_variant_field / parse_optional_variant_field *)
Fixpoint stmt_fams (s : stmt) : list (bytes * bytes) :=
  let fix go (l : list stmt) : list (bytes * bytes) :=
    match l with [] => [] | x :: r => stmt_fams x ++ go r end in
  match s with
  | SReqV fam base _ | SOptV fam base _ => [(fam, base)]
  | SWhile _ body => go body
  | SIf _ th el => go th ++ go el
  | SPeek _ _ arms default =>
      (fix ga (a : list (list bytes * list stmt)) := match a with [] => [] | (_, b) :: r => go b ++ ga r end) arms ++ go default
  | SWhileLetOk call body => stmt_fams call ++ go body
  | STryElse call _ th el => stmt_fams call ++ go th ++ go el
  | _ => []
  end.

Definition positions : list (bytes * (bytes * bytes)) :=
  flat_map (fun p => map (fun fb => (fst p, fb)) (flat_map stmt_fams (snd p))) gen.Layouts.all_layouts.

Definition position_ok (x : bytes * (bytes * bytes)) : bool :=
  match family_named (fst (snd x)) with
  | Some f => wf_family ptag f (snd (snd x)) && heur_on_input f
  | None => false
  end.

(* the positions that do NOT meet the condition, listed (empty = all fine) *)
Definition bad_positions : list (bytes * (bytes * bytes)) := filter (fun x => negb (position_ok x)) positions.

Lemma gen_positions_ok : bad_positions = [].
Proof. vm_compute. reflexivity. Qed.

Lemma filter_nil_all : forall (A : Type) (p : A -> bool) l, filter p l = [] -> forall x, In x l -> p x = false.
Proof.
  intros A p l. induction l as [|y r IH]; cbn [filter]; intros H x HI; [destruct HI|].
  destruct (p y) eqn:E; [discriminate|].
  destruct HI as [HI|HI]; [subst; exact E | exact (IH H x HI)].
Qed.

Lemma position_wf : forall T fam base, In (T, (fam, base)) positions ->
  exists f, family_named fam = Some f /\ wf_family ptag f base = true /\ heur_on_input f = true.
Proof.
  intros T fam base HI.
  pose proof (filter_nil_all _ _ _ gen_positions_ok _ HI) as H. apply negb_false_iff in H.
  unfold position_ok in H. cbn [fst snd] in H.
  destruct (family_named fam) as [f|]; [|discriminate].
  apply andb_true_iff in H. destruct H as [H1 H2]. exists f. repeat split; assumption.
Qed.

(* non-vacuity: there are positions, of several families *)
Lemma positions_nonempty : (80 <= List.length positions)%nat.
Proof. vm_compute. repeat constructor. Qed.
